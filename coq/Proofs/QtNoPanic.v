(* C05 for the whole Questrade converter (tx-export-convert: excel.rs
   SheetReader, questrade.rs sheet_to_txs, fx_tracker.rs, the pipeline of
   tx_export_convert_impl.rs): the model's top-level function [run] never
   returns a panic in exact arithmetic, for every sheet whose rows are at
   least as wide as the header row, every header layout, both header
   policies and every option.

   The width hypothesis is what office::Range guarantees by construction (its
   rows are `inner.chunks(width)` of a `height * width` vector, so every row
   has exactly the width of the header row).  The model's [sheet] type is
   wider (a list of lists): on a ragged sheet the model does panic at the
   index `self.row.unwrap().get(col).unwrap()` of excel.rs:39
   ([ragged_row_panics_in_model]); no decoded sheet is ragged.

   The statement is proved once for every arithmetic whose operators panic only
   with a panic of a class [P] (and divide by a non-zero divisor without any
   other panic): with [P := fun _ => False] this is exact arithmetic; with
   [P p := p = PanicOverflow] it is rust_decimal ([dec]): there the only panic
   of the converter is an operator overflow (class decimal-overflow of C05:
   the products price * shares, cad * other, the difference - commission and
   the quotient cad / other), nothing else.

   Not in the model (Model/Questrade.v): xlsx decoding, f64 -> Decimal,
   Error cells, Decimal::from_str outside the modelled grammar, and a Range of
   width 0 (Range::default(): the real `sheet.rows()` panics there with
   "chunk size must be non-zero", whereas the model's empty sheet is the
   "Sheet was empty" diagnostic; see design.d/qtnopanic.md). *)
From Coq Require Import List NArith ZArith QArith Qcanon Bool Lia.
From ACB Require Import Base.Outcome Base.QcExtra Base.Fit Base.Arith
     Model.QText Model.Questrade Model.FxTracker.
Import ListNotations.

(* [np P m]: m is a value, or a panic of class P; never a rejection (no model
   function of the converter returns [Rej]: row errors are data) *)
Definition np {T} (P : panic -> Prop) (m : res T) : Prop :=
  match m with Ok _ => True | Rej _ => False | Panic p => P p end.

Lemma np_bind {T U} (P : panic -> Prop) (m : res T) (f : T -> res U) :
  np P m -> (forall a, np P (f a)) -> np P (bind m f).
Proof. destruct m as [a | r | p]; cbn [np bind]; intros Hm Hf; [apply Hf | exact Hm | exact Hm]. Qed.

Lemma np_none_is_ok {T} (m : res T) : np (fun _ => False) m -> exists r, m = Ok r.
Proof. destruct m as [a | r | p]; cbn [np]; intros H; [eexists; reflexivity | contradiction | contradiction]. Qed.

(* the operators of the arithmetic panic only within class P *)
Record ops_np (P : panic -> Prop) (A : arith) : Prop := {
  on_mul : forall a b, np P (a_mul A a b);
  on_sub : forall a b, np P (a_sub A a b);
  on_div : forall a b, Qceqb b 0 = false -> np P (a_div A a b)
}.

Lemma exact_ops : ops_np (fun _ => False) exact.
Proof.
  split; cbn [a_mul a_sub a_div exact np]; intros a b; try exact I.
  intros E. rewrite E. exact I.
Qed.

Lemma fit_res_np q : np (fun p => p = PanicOverflow) (fit_res q).
Proof. unfold fit_res. destruct (fit q); cbn [np]; [exact I | reflexivity]. Qed.

Lemma dec_ops : ops_np (fun p => p = PanicOverflow) dec.
Proof.
  split; cbn [a_mul a_sub a_div dec]; intros a b; try apply fit_res_np.
  intros E. rewrite E. apply fit_res_np.
Qed.

(* ---- excel.rs: the header index is inside the header row ---- *)
Lemma last_index_lt hdr name : forall i, last_index hdr name = Some i -> (i < length hdr)%nat.
Proof.
  induction hdr as [| c r IH]; cbn [last_index length]; intros i H; [discriminate | ].
  destruct (last_index r name) as [j |].
  - inversion H; subst i. specialize (IH j eq_refl). lia.
  - destruct (cell_is name c); [inversion H; lia | discriminate].
Qed.

Lemma filter_len {T} (f : T -> bool) l : (length (filter f l) <= length l)%nat.
Proof. induction l as [| x l IH]; cbn [filter length]; [lia | destruct (f x); cbn [length]; lia]. Qed.

Lemma header_index_lt pol hdr name i :
  header_index pol hdr name = Some i -> (i < length hdr)%nat.
Proof.
  destruct pol; cbn [header_index]; intros H; apply last_index_lt in H; [ | exact H].
  pose proof (filter_len is_str hdr). lia.
Qed.

(* SheetReader::get: the index `row.get(col).unwrap()` cannot fail on a row
   at least as wide as the header *)
Lemma get_in_row pol hdr row name :
  (length hdr <= length row)%nat -> get pol hdr row name <> OutOfRow.
Proof.
  intros Hw. unfold get. destruct (header_index pol hdr name) as [i |] eqn:E; [ | discriminate].
  destruct (nth_error row i) as [c |] eqn:E2; [discriminate | ].
  apply nth_error_None in E2. apply header_index_lt in E. lia.
Qed.

(* ---- the cell readers ---- *)
Lemma get_str_np col l : l <> OutOfRow -> get_str col l <> GPanic.
Proof. destruct l; cbn [get_str]; intros H; [discriminate | congruence | discriminate]. Qed.

Lemma parse_dec_str_np col s : parse_dec_str col s <> GPanic.
Proof.
  unfold parse_dec_str.
  destruct (match s with 45%N :: r => (true, r) | 43%N :: r => (false, r) | _ => (false, s) end) as [neg body].
  repeat match goal with |- (if ?b then _ else _) <> _ => destruct b end; discriminate.
Qed.

Lemma get_dec_np col l : l <> OutOfRow -> get_dec col l <> GPanic.
Proof.
  destruct l as [| | c]; cbn [get_dec]; intros H; [discriminate | congruence | ].
  destruct c as [| s | z | d disp | b]; try discriminate.
  - apply parse_dec_str_np.
  - destruct d; discriminate.
Qed.

Lemma gbind_np {T} P (g : got T) adj k :
  g <> GPanic -> (forall v, np P (k v)) -> np P (gbind g adj k).
Proof. destruct g; cbn [gbind]; intros Hg Hk; [apply Hk | exact I | congruence]. Qed.

(* a row all of whose looked-up cells are inside the row *)
Definition qrow_ok (q : qrow) : Prop :=
  q_action q <> OutOfRow /\ q_tdate q <> OutOfRow /\ q_sdate q <> OutOfRow /\
  q_accttype q <> OutOfRow /\ q_acctnum q <> OutOfRow /\ q_cur q <> OutOfRow /\
  q_net q <> OutOfRow /\ q_symbol q <> OutOfRow /\ q_price q <> OutOfRow /\
  q_qty q <> OutOfRow /\ q_comm q <> OutOfRow.

Lemma read_row_ok pol hdr row : (length hdr <= length row)%nat -> qrow_ok (read_row pol hdr row).
Proof. intros Hw. unfold qrow_ok, read_row; cbn. repeat split; apply get_in_row; exact Hw. Qed.

Section AnyArith.
  Variable P : panic -> Prop.
  Variable A : arith.
  Hypothesis HA : ops_np P A.

  (* ---- fx_tracker.rs ---- *)
  Lemma add_fxt_row_np adj fr : np P (add_fxt_row A adj fr).
  Proof.
    unfold add_fxt_row. destruct adj as [a |]; [ | exact I].
    destruct (if text_eqb (fr_cur a) t_CAD then (a, fr) else (fr, a)) as [cad other].
    destruct (negb (text_eqb (fr_cur cad) t_CAD) || text_eqb (fr_cur other) t_CAD); [exact I | ].
    destruct (negb (date_eqb (fr_td other) (fr_td cad))); [exact I | ].
    destruct (negb (Bool.eqb (fr_reg other) (fr_reg cad)) || negb (account_eqb (fr_acct other) (fr_acct cad)));
      [exact I | ].
    apply np_bind; [apply (on_mul _ _ HA) | intros prod].
    destruct (Qcltb 0 prod); [exact I | ].
    destruct (Qceqb (fr_amount other) 0) eqn:Ez; [exact I | ].
    apply np_bind; [apply (on_div _ _ HA); exact Ez | intros q].
    destruct (fx_tx _ _ _ _ _ _ _ _); exact I.
  Qed.

  Lemma add_implicit_fxt_np t : np P (add_implicit_fxt A t).
  Proof.
    unfold add_implicit_fxt.
    apply np_bind; [apply (on_mul _ _ HA) | intros gross].
    apply np_bind; [apply (on_sub _ _ HA) | intros amount].
    destruct (Qceqb amount 0); [exact I | ].
    destruct (fx_tx _ _ _ _ _ _ _ _); exact I.
  Qed.

  (* ---- questrade.rs: one row ---- *)
  Ltac row_step :=
    lazymatch goal with
    | |- np _ (gbind (get_str _ _) _ _) =>
        apply gbind_np; [apply get_str_np; assumption | intros ?; cbn beta zeta]
    | |- np _ (gbind (get_dec _ _) _ _) =>
        apply gbind_np; [apply get_dec_np; assumption | intros ?; cbn beta zeta]
    | |- np _ (eff _ _ _ _) => exact I
    | |- np _ (bind (add_fxt_row _ _ _) _) =>
        apply np_bind; [apply add_fxt_row_np | intros [[? ?] ?]; cbn beta iota]
    | |- np _ (bind (add_implicit_fxt _ _) _) =>
        apply np_bind; [apply add_implicit_fxt_np | intros [? ?]; cbn beta iota]
    | |- np _ (if ?b then _ else _) => destruct b
    | |- np _ (match ?x with _ => _ end) => destruct x
    end.

  Lemma row_effect_np n q adj : qrow_ok q -> np P (row_effect A n q adj).
  Proof.
    intros (H1 & H2 & H3 & H4 & H5 & H6 & H7 & H8 & H9 & H10 & H11).
    unfold row_effect. repeat row_step.
  Qed.

  Lemma convert_rows_np rows : forall n adj,
    Forall qrow_ok rows -> np P (convert_rows A n rows adj).
  Proof.
    induction rows as [| q r IH]; intros n adj HF; cbn [convert_rows]; [exact I | ].
    apply Forall_cons_iff in HF as [Hq HF].
    apply np_bind; [apply row_effect_np; exact Hq | intros e].
    apply np_bind; [apply IH; exact HF | intros [[[ts fs] adj'] errs]; exact I].
  Qed.

  Lemma convert_np rows : Forall qrow_ok rows -> np P (convert A rows).
  Proof.
    intros HF. unfold convert.
    apply np_bind; [apply convert_rows_np; exact HF | intros [[[ts fs] adj'] errs]; exact I].
  Qed.

  (* ---- tx_export_convert_impl.rs: the whole run (filters, rate, sort are
     total list functions) ---- *)
  Definition wide_enough (sh : sheet) : Prop :=
    match sh with
    | [] => True
    | hdr :: rows => Forall (fun r => (length hdr <= length r)%nat) rows
    end.

  Theorem run_np pol o sh : wide_enough sh -> np P (run A pol o sh).
  Proof.
    intros Hw. unfold run. destruct sh as [| hdr rows]; cbn [sheet_rows]; [exact I | ].
    apply np_bind.
    - apply convert_np. cbn [wide_enough] in Hw. apply Forall_map.
      eapply Forall_impl; [ | exact Hw]. intros r Hr. apply read_row_ok. exact Hr.
    - intros [txs errs]. destruct (post_process o txs); exact I.
  Qed.
End AnyArith.

(* office::Range: every row has the width of the header row *)
Lemma rectangular_wide hdr rows :
  Forall (fun r => length r = length hdr) rows -> wide_enough (hdr :: rows).
Proof. cbn [wide_enough]. apply Forall_impl. intros r Hr. lia. Qed.

(* exact arithmetic: the converter always ends with a result *)
Theorem run_total pol o sh :
  wide_enough sh -> exists r, run exact pol o sh = Ok r.
Proof. intros Hw. apply np_none_is_ok. apply run_np; [exact exact_ops | exact Hw]. Qed.

Theorem run_exact_no_panic pol o sh :
  wide_enough sh -> match run exact pol o sh with Panic _ => False | _ => True end.
Proof. intros Hw. destruct (run_total pol o sh Hw) as [r ->]. exact I. Qed.

(* rust_decimal: the only panic of the converter is an operator overflow *)
Theorem run_dec_only_overflow pol o sh :
  wide_enough sh ->
  match run dec pol o sh with Ok _ => True | Rej _ => False | Panic p => p = PanicOverflow end.
Proof. intros Hw. apply (run_np _ dec dec_ops pol o sh Hw). Qed.

(* the hypothesis is needed in the model: a row shorter than the header makes
   the index of excel.rs:39 fail.  office::Range cannot produce such a row. *)
Definition ragged_sheet : sheet :=
  [[CStr h_Action; CStr h_TransactionDate]; [CStr t_BUY]].
Lemma ragged_row_panics_in_model :
  run exact HeaderEnumerated
      {| o_account := None; o_security := None; o_no_fx := false; o_no_sort := false; o_rate := None |}
      ragged_sheet = Panic (PanicMissing 320).
Proof. vm_compute. reflexivity. Qed.

(* ---- non-vacuity: the example export of C18 (USD buy, CAD sell, a CAD/USD
   conversion, a USD dividend, a deposit) followed by two damaged rows: a BUY
   whose Quantity cell is a boolean and a row with an unknown action ---- *)
From ACB Require Import Proofs.QuestradeProps.
Local Open Scope N_scope.

Definition damaged_rows : list (list cell) :=
  [[CStr [50;48;50;51;45;48;49;45;49;49]; CStr [50;48;50;51;45;48;49;45;49;51]; CStr t_BUY; CStr [70;79;79];
    CStr [100]; CBool true; CFloat (Some (Qcfrac 25 2)) [49;50;46;53]; CEmpty; CInt 0; CEmpty;
    CStr t_USD; CStr [49;50;51;52;53;54;55;56]; CStr [84;114;97;100;101;115]; CStr [77;97;114;103;105;110]];
   [CStr [106;117;110;107]; CEmpty; CStr [88;89;90]; CEmpty; CEmpty; CEmpty; CEmpty; CEmpty; CEmpty; CEmpty;
    CEmpty; CEmpty; CEmpty; CEmpty]].
Definition np_sheet : sheet := ex_header :: ex_rows ++ damaged_rows.

Lemma np_sheet_facts :
  Forall (fun r => length r = length ex_header) (ex_rows ++ damaged_rows) /\
  wide_enough np_sheet /\
  length (out_rows (run exact HeaderEnumerated no_opts np_sheet)) = 5%nat /\
  out_errs (run exact HeaderEnumerated no_opts np_sheet)
  = [(8, QErr.bool_value Col.qty); (9, QErr.unrecognized_action)]%N /\
  map b_row (out_rows (run exact HeaderEnumerated no_opts np_sheet)) = [2; 5; 2; 3; 6]%N /\
  run dec HeaderEnumerated no_opts np_sheet = run exact HeaderEnumerated no_opts np_sheet.
Proof.
  assert (HR : Forall (fun r => length r = length ex_header) (ex_rows ++ damaged_rows))
    by (repeat constructor).
  split; [exact HR | ]. split; [apply rectangular_wide; exact HR | ].
  vm_compute. repeat split.
Qed.
