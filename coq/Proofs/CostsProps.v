(* C17: the total-cost tables of the model (Model/Costs.v, exact arithmetic)
   are the tables of the declarative specification Spec/MaxCost.v, for every
   list of deltas whose per-security rows are in chronological order. *)
From Coq Require Import List NArith ZArith QArith Qcanon Bool Lia Permutation Sorting.Sorted.
From ACB Require Import Base.Outcome Base.QcExtra Base.Arith Model.Tx Model.Costs Model.HashSites
     Spec.MaxCost Proofs.Tactics Proofs.SortPerm Proofs.HashOrder.
Import ListNotations.
Local Open Scope Z_scope.

(* ------------------------------------------------------------------ *)
(* association lists keyed by security                                  *)

Lemma alookup_aupdate_eq {V} k (v : V) l : alookup k (aupdate k v l) = Some v.
Proof.
  induction l as [|[k' v'] r IH]; cbn [aupdate alookup].
  - rewrite N.eqb_refl. reflexivity.
  - destruct (N.eqb_spec k k') as [->|Hne]; cbn [alookup].
    + rewrite N.eqb_refl. reflexivity.
    + destruct (N.eqb_spec k k'); [contradiction|]. exact IH.
Qed.
Lemma alookup_aupdate_neq {V} k k' (v : V) l : k <> k' -> alookup k (aupdate k' v l) = alookup k l.
Proof.
  intros Hne. induction l as [|[k2 v2] r IH]; cbn [aupdate alookup].
  - destruct (N.eqb_spec k k'); [contradiction|]. reflexivity.
  - destruct (N.eqb_spec k' k2) as [->|Hne2]; cbn [alookup].
    + destruct (N.eqb_spec k k2); [contradiction|]. reflexivity.
    + destruct (N.eqb_spec k k2); [reflexivity|]. exact IH.
Qed.
Lemma alookup_in_keys {V} k (l : list (N * V)) : In k (map fst l) <-> exists v, alookup k l = Some v.
Proof.
  split.
  - induction l as [|[k' v'] r IH]; cbn [map fst alookup]; [intros []|].
    intros [E|Hin]; destruct (N.eqb_spec k k') as [->|Hne]; eauto; congruence.
  - intros [v Hv]. apply alookup_some_in in Hv. change k with (fst (k, v)). apply in_map. exact Hv.
Qed.
Lemma amem_true {V} k (l : list (N * V)) : amem k l = true <-> In k (map fst l).
Proof.
  unfold amem. rewrite alookup_in_keys. destruct (alookup k l); split; intros H; eauto; try discriminate.
  destruct H as [v Hv]. discriminate.
Qed.
Lemma aupdate_keys_in {V} k k' (v : V) l : In k (map fst (aupdate k' v l)) <-> k = k' \/ In k (map fst l).
Proof.
  rewrite !alookup_in_keys. destruct (N.eq_dec k k') as [->|Hne].
  - rewrite alookup_aupdate_eq. split; eauto.
  - rewrite alookup_aupdate_neq by exact Hne. split; [eauto|]. intros [E|H]; [contradiction|exact H].
Qed.
Lemma aupdate_nodup {V} k (v : V) l : NoDup (map fst l) -> NoDup (map fst (aupdate k v l)).
Proof.
  induction l as [|[k' v'] r IH]; intros Hn; cbn [aupdate map fst].
  - constructor; [intros []|constructor].
  - cbn [map fst] in Hn. inversion Hn as [|? ? Hnin Hn']; subst.
    destruct (N.eqb_spec k k') as [->|Hne]; cbn [map fst].
    + constructor; assumption.
    + constructor; [|apply IH; exact Hn'].
      intros Hin. apply aupdate_keys_in in Hin. destruct Hin as [E|Hin]; [congruence|contradiction].
Qed.

Definition asum (l : list (N * Qc)) : Qc := qsum (map snd l).
Definition aval (k : N) (l : list (N * Qc)) : Qc := match alookup k l with Some v => v | None => 0%Qc end.

Lemma asum_aupdate k v l : NoDup (map fst l) -> asum (aupdate k v l) = (asum l - aval k l + v)%Qc.
Proof.
  unfold asum, aval. induction l as [|[k' v'] r IH]; intros Hn; cbn [aupdate map snd qsum fold_right alookup].
  - ring.
  - cbn [map fst] in Hn. inversion Hn as [|? ? Hnin Hn']; subst.
    destruct (N.eqb_spec k k') as [->|Hne]; cbn [map snd qsum fold_right].
    + fold (qsum (map snd r)). ring.
    + fold (qsum (map snd r)) (qsum (map snd (aupdate k v r))). rewrite (IH Hn'). ring.
Qed.

Lemma asum_nonneg l : Forall (fun kv => (0 <= snd kv)%Qc) l -> (0 <= asum l)%Qc.
Proof.
  unfold asum. induction 1 as [|[k v] r Hv _ IH]; cbn [map snd qsum fold_right].
  - apply Qcle_refl.
  - fold (qsum (map snd r)). cbn [snd] in Hv. qc_lra.
Qed.

Lemma aupdate_forall {V} (P : N * V -> Prop) k v l : Forall P l -> P (k, v) -> Forall P (aupdate k v l).
Proof.
  intros Hl Hv. induction Hl as [|[k' v'] r Hh Hr IH]; cbn [aupdate].
  - constructor; [exact Hv|constructor].
  - destruct (N.eqb k k'); constructor; assumption.
Qed.

(* sum over an association list = sum of the lookups over any duplicate-free
   enumeration of its keys *)
Lemma qsum_cons x l : qsum (x :: l) = (x + qsum l)%Qc.
Proof. reflexivity. Qed.
Lemma asum_by_keys l : NoDup (map fst l) -> asum l = qsum (map (fun k => aval k l) (map fst l)).
Proof.
  unfold asum. induction l as [|[k v] r IH]; intros Hn; [reflexivity|].
  cbn [map fst snd] in *. inversion Hn as [|? ? Hnin Hn']; subst.
  rewrite !qsum_cons. rewrite (IH Hn'). f_equal.
  - unfold aval. cbn [alookup]. rewrite N.eqb_refl. reflexivity.
  - f_equal. apply map_ext_in. intros k' Hk'. unfold aval. cbn [alookup].
    destruct (N.eqb_spec k' k) as [->|Hne]; [contradiction|reflexivity].
Qed.
Lemma qsum_perm l l' : Permutation l l' -> qsum l = qsum l'.
Proof. apply qtotal_perm. Qed.
Lemma asum_over l ks :
  NoDup (map fst l) -> NoDup ks -> (forall k, In k ks <-> In k (map fst l)) ->
  asum l = qsum (map (fun k => aval k l) ks).
Proof.
  intros Hn Hks Hiff. rewrite (asum_by_keys l Hn). apply qsum_perm. apply Permutation_map.
  apply NoDup_Permutation; try assumption. intros k. symmetry. apply Hiff.
Qed.

(* ------------------------------------------------------------------ *)
(* the specification along a growing prefix of the delta list            *)

Definition srow (s : N) (c : cdelta) : bool := counted c && N.eqb (cd_sec c) s.
Definition on_day (d : Z) (l : list cdelta) : list cdelta := filter (fun c => cd_day c =? d) l.
Definition dmax (p : list cdelta) (d : Z) (s : N) : option Qc :=
  qmax_list (map post_of (on_day d (rows_of p s))).
Definition dclose (p : list cdelta) (d : Z) (s : N) : option Qc :=
  option_map post_of (last_opt (on_day d (rows_of p s))).
Definition zero_of (p : list cdelta) (s : N) : option (Z * Qc) :=
  match rows_of p s with c :: _ => Some (cd_day c, pre_of c) | [] => None end.

Lemma rows_of_snoc p c s : rows_of (p ++ [c]) s = rows_of p s ++ (if srow s c then [c] else []).
Proof. unfold rows_of. rewrite filter_app. cbn [filter]. fold (srow s c). destruct (srow s c); reflexivity. Qed.

Lemma qmax_list_snoc l x :
  qmax_list (l ++ [x]) = Some (match qmax_list l with Some m => Qcmax m x | None => x end).
Proof.
  destruct l as [|a r]; cbn [qmax_list app]; [reflexivity|].
  rewrite fold_left_app. reflexivity.
Qed.

Lemma last_opt_snoc {X} (l : list X) x : last_opt (l ++ [x]) = Some x.
Proof.
  induction l as [|a r IH]; [reflexivity|].
  cbn [app]. destruct r as [|b r']; [reflexivity|]. exact IH.
Qed.
Lemma last_opt_app {X} (l l' : list X) : l' <> [] -> last_opt (l ++ l') = last_opt l'.
Proof.
  intros Hne. induction l as [|a r IH]; [reflexivity|].
  cbn [app]. destruct (r ++ l') as [|b t] eqn:E.
  - destruct r; [cbn [app] in E; contradiction|discriminate].
  - exact IH.
Qed.

Lemma dmax_snoc p c d s :
  dmax (p ++ [c]) d s =
  if srow s c && (cd_day c =? d)
  then Some (match dmax p d s with Some m => Qcmax m (post_of c) | None => post_of c end)
  else dmax p d s.
Proof.
  unfold dmax. rewrite rows_of_snoc. unfold on_day. rewrite filter_app.
  destruct (srow s c); cbn [filter andb].
  - destruct (cd_day c =? d); [|rewrite app_nil_r; reflexivity].
    rewrite map_app. cbn [map]. apply qmax_list_snoc.
  - rewrite app_nil_r. reflexivity.
Qed.

Lemma dclose_snoc p c d s :
  dclose (p ++ [c]) d s = if srow s c && (cd_day c =? d) then Some (post_of c) else dclose p d s.
Proof.
  unfold dclose. rewrite rows_of_snoc. unfold on_day. rewrite filter_app.
  destruct (srow s c); cbn [filter andb].
  - destruct (cd_day c =? d); [|rewrite app_nil_r; reflexivity].
    rewrite last_opt_snoc. reflexivity.
  - rewrite app_nil_r. reflexivity.
Qed.

Lemma zero_of_snoc p c s :
  zero_of (p ++ [c]) s =
  match zero_of p s with
  | Some z => Some z
  | None => if srow s c then Some (cd_day c, pre_of c) else None
  end.
Proof.
  unfold zero_of. rewrite rows_of_snoc. destruct (rows_of p s) as [|a r]; cbn [app].
  - destruct (srow s c); reflexivity.
  - reflexivity.
Qed.

Lemma spec_notes_snoc p c :
  spec_notes (p ++ [c]) = spec_notes p ++ (if counted c then [] else [note_of c]).
Proof.
  unfold spec_notes. rewrite filter_app, map_app. cbn [filter]. destruct (counted c); reflexivity.
Qed.

(* ------------------------------------------------------------------ *)
(* observe_new_cost under exact arithmetic                               *)

Definition rec_ok (r : dayrec) : Prop :=
  dr_total r = asum (dr_costs r) /\ NoDup (map fst (dr_costs r)) /\
  Forall (fun kv : N * Qc => (0 <= snd kv)%Qc) (dr_costs r).

Lemma rec_ok_0 : rec_ok dayrec0.
Proof. repeat split; cbn; constructor. Qed.

Lemma gez_unwrap_nonneg site q : (0 <= q)%Qc -> gez_unwrap site q = Ok q.
Proof. intros H. unfold gez_unwrap. apply Qcleb_true in H. rewrite H. reflexivity. Qed.

Lemma Qcmax_ge_r a b : (b <= Qcmax a b)%Qc.
Proof. unfold Qcmax. destruct (Qcltb a b) eqn:E; qc_bool; qc_lra. Qed.
Lemma Qcmax_0_l b : (0 <= b)%Qc -> Qcmax 0 b = b.
Proof.
  intros H. unfold Qcmax. destruct (Qcltb 0 b) eqn:E; [reflexivity|]. qc_bool. qc_lra.
Qed.

Lemma observe_exact r sec acb :
  rec_ok r -> (0 <= acb)%Qc ->
  let cur := Qcmax (aval sec (dr_costs r)) acb in
  observe exact r sec acb = Ok {| dr_total := asum (aupdate sec cur (dr_costs r));
                                  dr_costs := aupdate sec cur (dr_costs r) |}
  /\ rec_ok {| dr_total := asum (aupdate sec cur (dr_costs r)); dr_costs := aupdate sec cur (dr_costs r) |}.
Proof.
  intros [Ht [Hn Hf]] Hacb cur.
  assert (Hcur : (0 <= cur)%Qc).
  { unfold cur. eapply Qcle_trans; [exact Hacb|apply Qcmax_ge_r]. }
  assert (Hok : rec_ok {| dr_total := asum (aupdate sec cur (dr_costs r)); dr_costs := aupdate sec cur (dr_costs r) |}).
  { repeat split; cbn [dr_total dr_costs].
    - apply aupdate_nodup. exact Hn.
    - apply aupdate_forall; [exact Hf|exact Hcur]. }
  split; [|exact Hok].
  unfold observe. fold (aval sec (dr_costs r)). fold cur.
  rewrite (gez_unwrap_nonneg _ cur Hcur). cbn [bind a_sub a_add exact].
  rewrite Ht. rewrite <- (asum_aupdate sec cur (dr_costs r) Hn).
  rewrite gez_unwrap_nonneg; [reflexivity|].
  apply asum_nonneg. destruct Hok as [_ [_ H]]. exact H.
Qed.

(* ------------------------------------------------------------------ *)
(* first loop of calc_max_day_cost_per_sec                               *)

Definition day_costs (days : list (Z * dayrec)) (d : Z) (s : N) : option Qc :=
  match zlookup d days with Some r => alookup s (dr_costs r) | None => None end.
Definition close_at (close : list (Z * list (N * Qc))) (d : Z) (s : N) : option Qc :=
  match zlookup d close with Some c => alookup s c | None => None end.

Record Inv1 (p : list cdelta) (st : st1) : Prop := {
  i_days_ok : forall d r, zlookup d (s_days st) = Some r -> rec_ok r;
  i_days : forall d s, day_costs (s_days st) d s = dmax p d s;
  i_keys : NoDup (map fst (s_days st));
  i_keys_in : forall d, In d (map fst (s_days st)) <->
                        exists c, In c p /\ counted c = true /\ cd_day c = d;
  i_close : forall d s, close_at (s_close st) d s = dclose p d s;
  i_zero : forall s, alookup s (s_zero st) = zero_of p s;
  i_secs : NoDup (s_secs st);
  i_secs_in : forall s, In s (s_secs st) <-> rows_of p s <> [];
  i_notes : s_notes st = spec_notes p
}.

Lemma Inv1_nil : Inv1 [] st1_0.
Proof.
  constructor; cbn; try reflexivity; try constructor; try discriminate; try tauto.
  - intros [c [[] _]].
Qed.

Lemma zupdate_keys_in {V} k k' (v : V) l : In k (map fst (zupdate k' v l)) <-> k = k' \/ In k (map fst l).
Proof.
  rewrite !zlookup_in_keys. destruct (Z.eq_dec k k') as [->|Hne].
  - rewrite zlookup_zupdate_eq. split; eauto.
  - rewrite zlookup_zupdate_neq by exact Hne. split; [eauto|]. intros [E|H]; [contradiction|exact H].
Qed.

Lemma nmem_true x l : nmem x l = true <-> In x l.
Proof.
  unfold nmem. rewrite existsb_exists. split.
  - intros [y [Hy E]]. apply N.eqb_eq in E. subst. exact Hy.
  - intros H. exists x. split; [exact H|apply N.eqb_refl].
Qed.

Lemma alookup_snoc_none {V} k k' (v : V) l :
  alookup k l = None -> alookup k (l ++ [(k', v)]) = if N.eqb k k' then Some v else None.
Proof.
  induction l as [|[k2 v2] r IH]; cbn [alookup app]; [reflexivity|].
  destruct (N.eqb k k2); [discriminate|]. exact IH.
Qed.
Lemma alookup_snoc_some {V} k k' (v v0 : V) l :
  alookup k l = Some v0 -> alookup k (l ++ [(k', v)]) = Some v0.
Proof.
  induction l as [|[k2 v2] r IH]; cbn [alookup app]; [discriminate|].
  destruct (N.eqb k k2); [tauto|]. exact IH.
Qed.

Lemma mcounted_faithful c :
  faithful_delta c -> counted c = is_some (cd_post c) && cd_dflt c.
Proof.
  unfold faithful_delta, counted. destruct (cd_post c) as [p|]; cbn [is_some].
  - intros H. rewrite H by discriminate. rewrite andb_true_r. reflexivity.
  - intros _. rewrite andb_false_r. reflexivity.
Qed.

Lemma srow_counted s c : counted c = true -> srow s c = N.eqb (cd_sec c) s.
Proof. intros H. unfold srow. rewrite H. reflexivity. Qed.
Lemma srow_not_counted s c : counted c = false -> srow s c = false.
Proof. intros H. unfold srow. rewrite H. reflexivity. Qed.

(* a row that does not count only adds a note *)
Lemma step1_skip p st c :
  Inv1 p st -> faithful_delta c -> counted c = false ->
  exists st', step1 exact st c = Ok st' /\ Inv1 (p ++ [c]) st'.
Proof.
  intros HI Hf Hc. pose proof (mcounted_faithful c Hf) as Hm. rewrite Hc in Hm.
  assert (Hrows : forall s, rows_of (p ++ [c]) s = rows_of p s).
  { intros s. rewrite rows_of_snoc, srow_not_counted by exact Hc. apply app_nil_r. }
  assert (Hinv : forall st', s_days st' = s_days st -> s_zero st' = s_zero st -> s_secs st' = s_secs st ->
                             s_close st' = s_close st -> s_notes st' = s_notes st ++ [note_of c] ->
                             Inv1 (p ++ [c]) st').
  { intros st' E1 E2 E3 E4 E5. constructor; rewrite ?E1, ?E2, ?E3, ?E4, ?E5.
    - apply (i_days_ok _ _ HI).
    - intros d s. rewrite (i_days _ _ HI). unfold dmax. rewrite Hrows. reflexivity.
    - apply (i_keys _ _ HI).
    - intros d. rewrite (i_keys_in _ _ HI).
      split; intros [c' [Hin [Hc' Hd]]]; exists c'; repeat split; try assumption.
      + apply in_or_app. left. exact Hin.
      + apply in_app_or in Hin. destruct Hin as [Hin|[E|[]]]; [exact Hin|]. subst c'. congruence.
    - intros d s. rewrite (i_close _ _ HI). unfold dclose. rewrite Hrows. reflexivity.
    - intros s. rewrite (i_zero _ _ HI). unfold zero_of. rewrite Hrows. reflexivity.
    - apply (i_secs _ _ HI).
    - intros s. rewrite (i_secs_in _ _ HI), Hrows. reflexivity.
    - rewrite spec_notes_snoc, Hc, (i_notes _ _ HI). reflexivity. }
  unfold step1. destruct (cd_post c) as [acb|] eqn:Ep.
  - cbn [is_some andb] in Hm. rewrite <- Hm. cbn [negb].
    eexists. split; [reflexivity|]. apply Hinv; try reflexivity.
    cbn [s_notes]. unfold note_of. rewrite Ep. reflexivity.
  - eexists. split; [reflexivity|]. apply Hinv; try reflexivity.
    cbn [s_notes]. unfold note_of. rewrite Ep. reflexivity.
Qed.

Lemma NoDup_snoc {X} (l : list X) x : NoDup l -> ~ In x l -> NoDup (l ++ [x]).
Proof.
  intros Hn Hx. apply (Permutation_NoDup (l := x :: l)); [apply Permutation_cons_append|].
  constructor; assumption.
Qed.

(* the state after a counted row, given how the day-zero map was extended *)
Lemma Inv1_counted p st c acb st' :
  Inv1 p st -> counted c = true -> cd_post c = Some acb -> (0 <= acb)%Qc ->
  let day := cd_day c in
  let sec := cd_sec c in
  let r := match zlookup day (s_days st) with Some r => r | None => dayrec0 end in
  let cur := Qcmax (aval sec (dr_costs r)) acb in
  let r' := {| dr_total := asum (aupdate sec cur (dr_costs r)); dr_costs := aupdate sec cur (dr_costs r) |} in
  let cl := match zlookup day (s_close st) with Some c => c | None => [] end in
  s_days st' = zupdate day r' (s_days st) ->
  s_secs st' = (if nmem sec (s_secs st) then s_secs st else s_secs st ++ [sec]) ->
  s_close st' = zupdate day (aupdate sec acb cl) (s_close st) ->
  s_notes st' = s_notes st ->
  (forall s, alookup s (s_zero st') = zero_of (p ++ [c]) s) ->
  Inv1 (p ++ [c]) st'.
Proof.
  intros HI Hc Ep Hacb day sec r cur r' cl E1 E3 E4 E5 Hz.
  assert (Hr : rec_ok r).
  { unfold r. destruct (zlookup day (s_days st)) as [r0|] eqn:E; [eapply (i_days_ok _ _ HI); exact E|apply rec_ok_0]. }
  assert (Hr' : rec_ok r') by (apply (observe_exact r sec acb Hr Hacb)).
  assert (Hrl : forall s, alookup s (dr_costs r) = dmax p day s).
  { intros s. rewrite <- (i_days _ _ HI). unfold day_costs, r.
    destruct (zlookup day (s_days st)); reflexivity. }
  assert (Hpost : post_of c = acb) by (unfold post_of; rewrite Ep; reflexivity).
  constructor; rewrite ?E1, ?E3, ?E4, ?E5.
  - intros d r0. destruct (Z.eq_dec d day) as [->|Hne].
    + rewrite zlookup_zupdate_eq. intros H. inversion H; subst. exact Hr'.
    + rewrite zlookup_zupdate_neq by exact Hne. apply (i_days_ok _ _ HI).
  - intros d s. rewrite dmax_snoc, (srow_counted s c Hc). fold sec day. unfold day_costs.
    destruct (Z.eq_dec d day) as [->|Hne].
    + rewrite zlookup_zupdate_eq, Z.eqb_refl, andb_true_r. cbn [dr_costs r'].
      destruct (N.eqb_spec sec s) as [<-|Hns].
      * rewrite alookup_aupdate_eq. f_equal. unfold cur, aval. rewrite Hrl, Hpost.
        destruct (dmax p day sec); [reflexivity|]. apply Qcmax_0_l. exact Hacb.
      * rewrite alookup_aupdate_neq by (intros E; apply Hns; symmetry; exact E). apply Hrl.
    + rewrite zlookup_zupdate_neq by exact Hne.
      destruct (Z.eqb_spec day d) as [E|_]; [exfalso; apply Hne; symmetry; exact E|].
      rewrite andb_false_r. apply (i_days _ _ HI).
  - apply zupdate_nodup. apply (i_keys _ _ HI).
  - intros d. rewrite zupdate_keys_in, (i_keys_in _ _ HI). split.
    + intros [->|[c' [Hin [Hc' Hd]]]].
      * exists c. repeat split; [apply in_or_app; right; left; reflexivity|exact Hc].
      * exists c'. repeat split; try assumption. apply in_or_app. left. exact Hin.
    + intros [c' [Hin [Hc' Hd]]]. apply in_app_or in Hin. destruct Hin as [Hin|[E|[]]].
      * right. exists c'. repeat split; assumption.
      * left. subst c'. symmetry. exact Hd.
  - intros d s. rewrite dclose_snoc, (srow_counted s c Hc). fold sec day. unfold close_at.
    assert (Hcl : alookup s cl = dclose p day s).
    { rewrite <- (i_close _ _ HI). unfold close_at, cl. destruct (zlookup day (s_close st)); reflexivity. }
    destruct (Z.eq_dec d day) as [->|Hne].
    + rewrite zlookup_zupdate_eq, Z.eqb_refl, andb_true_r.
      destruct (N.eqb_spec sec s) as [<-|Hns].
      * rewrite alookup_aupdate_eq, Hpost. reflexivity.
      * rewrite alookup_aupdate_neq by (intros E; apply Hns; symmetry; exact E). exact Hcl.
    + rewrite zlookup_zupdate_neq by exact Hne.
      destruct (Z.eqb_spec day d) as [E|_]; [exfalso; apply Hne; symmetry; exact E|].
      rewrite andb_false_r. apply (i_close _ _ HI).
  - exact Hz.
  - destruct (nmem sec (s_secs st)) eqn:E; [apply (i_secs _ _ HI)|].
    apply NoDup_snoc; [apply (i_secs _ _ HI)|]. intros Hin. apply nmem_true in Hin. congruence.
  - intros s. rewrite rows_of_snoc, (srow_counted s c Hc). fold sec.
    assert (Hold := i_secs_in _ _ HI s).
    destruct (N.eqb_spec sec s) as [<-|Hns].
    + split; [intros _ E; apply app_eq_nil in E; destruct E as [_ E]; discriminate|].
      intros _. destruct (nmem sec (s_secs st)) eqn:E; [apply nmem_true; exact E|].
      apply in_or_app. right. left. reflexivity.
    + rewrite app_nil_r, <- Hold.
      destruct (nmem sec (s_secs st)); [reflexivity|].
      rewrite in_app_iff. cbn [In].
      split; [intros [H|[H|[]]]; [exact H|contradiction] | intros H; left; exact H].
  - rewrite spec_notes_snoc, Hc, app_nil_r. apply (i_notes _ _ HI).
Qed.

Lemma step1_counted p st c :
  Inv1 p st -> valid_delta c -> faithful_delta c -> counted c = true ->
  (forall c', In c' (rows_of p (cd_sec c)) -> cd_day c' <= cd_day c) ->
  exists st', step1 exact st c = Ok st' /\ Inv1 (p ++ [c]) st'.
Proof.
  intros HI Hv Hf Hc Hsort.
  destruct (Hv Hc) as [[acb [Ep Hacb]] [q [Eq Hq]]].
  pose proof (mcounted_faithful c Hf) as Hm. rewrite Hc, Ep in Hm. cbn [is_some andb] in Hm.
  set (day := cd_day c). set (sec := cd_sec c).
  set (r := match zlookup day (s_days st) with Some r => r | None => dayrec0 end).
  assert (Hr : rec_ok r).
  { unfold r. destruct (zlookup day (s_days st)) as [r0|] eqn:E; [eapply (i_days_ok _ _ HI); exact E|apply rec_ok_0]. }
  destruct (observe_exact r sec acb Hr Hacb) as [Hobs _].
  unfold step1. rewrite Ep, <- Hm. cbn [negb]. fold day sec r. rewrite Hobs. cbn [bind].
  assert (Hpre : pre_of c = q) by (unfold pre_of; rewrite Eq; reflexivity).
  destruct (alookup sec (s_zero st)) as [[d0 p0]|] eqn:Ez.
  - (* the security was seen before: its first day is not later *)
    assert (Hd0 : (day <? d0) = false).
    { rewrite (i_zero _ _ HI) in Ez. unfold zero_of in Ez.
      destruct (rows_of p sec) as [|c0 rest] eqn:Er; [discriminate|]. inversion Ez; subst.
      apply Z.ltb_ge. apply Hsort. fold sec. rewrite Er. left. reflexivity. }
    rewrite Hd0. eexists. split; [reflexivity|].
    eapply (Inv1_counted p st c acb); try eassumption; try reflexivity.
    intros s. cbn [s_zero]. rewrite zero_of_snoc, (srow_counted s c Hc), <- (i_zero _ _ HI). fold sec.
    destruct (alookup s (s_zero st)) as [z|] eqn:E; [reflexivity|].
    destruct (N.eqb_spec sec s) as [<-|_]; [congruence|reflexivity].
  - rewrite Eq. eexists. split; [reflexivity|].
    eapply (Inv1_counted p st c acb); try eassumption; try reflexivity.
    intros s. cbn [s_zero]. rewrite zero_of_snoc, (srow_counted s c Hc), <- (i_zero _ _ HI). fold sec day.
    destruct (alookup s (s_zero st)) as [z|] eqn:E.
    + erewrite alookup_snoc_some; [reflexivity|exact E].
    + rewrite (alookup_snoc_none _ _ _ _ E). rewrite N.eqb_sym, Hpre. reflexivity.
Qed.

Lemma mfold_app {S X} (f : S -> X -> res S) l l' s :
  mfold f (l ++ l') s = (s' <- mfold f l s ;; mfold f l' s').
Proof.
  revert s. induction l as [|x r IH]; intros s; cbn [app mfold bind]; [reflexivity|].
  destruct (f s x); cbn [bind]; try reflexivity. apply IH.
Qed.

Lemma StronglySorted_app_l {X} (R : X -> X -> Prop) l l' : StronglySorted R (l ++ l') -> StronglySorted R l.
Proof.
  induction l as [|a r IH]; intros H; [constructor|].
  cbn [app] in H. inversion H as [|? ? Hs Hall]; subst. constructor; [apply IH; exact Hs|].
  apply Forall_app in Hall. tauto.
Qed.
Lemma StronglySorted_snoc_all {X} (R : X -> X -> Prop) l x :
  StronglySorted R (l ++ [x]) -> Forall (fun a => R a x) l.
Proof.
  induction l as [|a r IH]; intros H; [constructor|].
  cbn [app] in H. inversion H as [|? ? Hs Hall]; subst. constructor; [|apply IH; exact Hs].
  apply Forall_app in Hall. destruct Hall as [_ Hx]. inversion Hx; assumption.
Qed.

Lemma chronological_prefix p c : chronological (p ++ [c]) -> chronological p.
Proof.
  intros H s. specialize (H s). rewrite rows_of_snoc in H. eapply StronglySorted_app_l. exact H.
Qed.

Theorem loop1_spec ds :
  Forall valid_delta ds -> Forall faithful_delta ds -> chronological ds ->
  exists st, loop1 exact ds = Ok st /\ Inv1 ds st.
Proof.
  unfold loop1. induction ds as [|c p IH] using rev_ind; intros Hv Hf Hch.
  - exists st1_0. split; [reflexivity|apply Inv1_nil].
  - apply Forall_app in Hv. destruct Hv as [Hvp Hvc]. inversion Hvc as [|? ? Hvc' _]; subst.
    apply Forall_app in Hf. destruct Hf as [Hfp Hfc]. inversion Hfc as [|? ? Hfc' _]; subst.
    destruct (IH Hvp Hfp (chronological_prefix _ _ Hch)) as [st [Hst HI]].
    rewrite mfold_app, Hst. cbn [bind mfold].
    destruct (counted c) eqn:Hc.
    + destruct (step1_counted p st c HI Hvc' Hfc' Hc) as [st' [Hs HI']].
      * specialize (Hch (cd_sec c)). rewrite rows_of_snoc, (srow_counted _ c Hc), N.eqb_refl in Hch.
        apply StronglySorted_snoc_all in Hch. rewrite Forall_forall in Hch. exact Hch.
      * rewrite Hs. cbn [bind]. exists st'. split; [reflexivity|exact HI'].
    + destruct (step1_skip p st c HI Hfc' Hc) as [st' [Hs HI']].
      rewrite Hs. cbn [bind]. exists st'. split; [reflexivity|exact HI'].
Qed.

(* ------------------------------------------------------------------ *)
(* second loop: filling one day                                          *)

Definition lk_nonneg (l : list (N * Qc)) : Prop := forall s v, alookup s l = Some v -> (0 <= v)%Qc.
Definition zero_pre (zero : list (N * (Z * Qc))) (s : N) : Qc :=
  match alookup s zero with Some (_, p) => p | None => 0%Qc end.
Definition lastval (zero : list (N * (Z * Qc))) (last : list (N * Qc)) (s : N) : Qc :=
  match alookup s last with Some v => v | None => zero_pre zero s end.
Definition valf zero (r : dayrec) last (s : N) : Qc :=
  match alookup s (dr_costs r) with Some v => v | None => lastval zero last s end.
Definition carf zero (cl : list (N * Qc)) (r : dayrec) last (s : N) : Qc :=
  match alookup s cl with Some c => c | None => valf zero r last s end.

Lemma rec_ok_lookup_nonneg r s v : rec_ok r -> alookup s (dr_costs r) = Some v -> (0 <= v)%Qc.
Proof.
  intros [_ [_ Hf]] H. apply alookup_some_in in H. rewrite Forall_forall in Hf. apply (Hf (s, v) H).
Qed.

Lemma lk_nonneg_update l s v : lk_nonneg l -> (0 <= v)%Qc -> lk_nonneg (aupdate s v l).
Proof.
  intros Hl Hv s' v'. destruct (N.eq_dec s' s) as [->|Hne].
  - rewrite alookup_aupdate_eq. intros H. inversion H; subst. exact Hv.
  - rewrite alookup_aupdate_neq by exact Hne. apply Hl.
Qed.

Definition zero_ok (zero : list (N * (Z * Qc))) (q : list N) : Prop :=
  forall s, In s q -> exists d0 p0, alookup s zero = Some (d0, p0) /\ (0 <= p0)%Qc.

Lemma fill_sec_spec zero cl r last s :
  rec_ok r -> lk_nonneg last -> lk_nonneg cl ->
  (exists d0 p0, alookup s zero = Some (d0, p0) /\ (0 <= p0)%Qc) ->
  exists r' last',
    fill_sec exact CarryClosing zero cl (r, last) s = Ok (r', last') /\
    rec_ok r' /\ lk_nonneg last' /\
    alookup s (dr_costs r') = Some (valf zero r last s) /\
    (forall s', s' <> s -> alookup s' (dr_costs r') = alookup s' (dr_costs r)) /\
    alookup s last' = Some (carf zero cl r last s) /\
    (forall s', s' <> s -> alookup s' last' = alookup s' last).
Proof.
  intros Hr Hl Hcl [d0 [p0 [Hz Hp0]]].
  assert (Hv : (0 <= valf zero r last s)%Qc).
  { unfold valf, lastval, zero_pre. destruct (alookup s (dr_costs r)) as [v|] eqn:E1.
    - eapply rec_ok_lookup_nonneg; eassumption.
    - destruct (alookup s last) as [v|] eqn:E2; [eapply Hl; exact E2|]. rewrite Hz. exact Hp0. }
  assert (Hc : (0 <= carf zero cl r last s)%Qc).
  { unfold carf. destruct (alookup s cl) as [c|] eqn:E; [eapply Hcl; exact E|exact Hv]. }
  unfold fill_sec.
  assert (Ev : match alookup s (dr_costs r) with
               | Some v => Ok v
               | None => match alookup s last with
                         | Some v => Ok v
                         | None => match alookup s zero with
                                   | Some (_, p) => Ok p
                                   | None => Panic (PanicMissing CSite.day_zero)
                                   end
                         end
               end = Ok (valf zero r last s)).
  { unfold valf, lastval, zero_pre. destruct (alookup s (dr_costs r)); [reflexivity|].
    destruct (alookup s last); [reflexivity|]. rewrite Hz. reflexivity. }
  rewrite Ev. cbn [bind]. fold (carf zero cl r last s).
  destruct (amem s (dr_costs r)) eqn:Em.
  - exists r, (aupdate s (carf zero cl r last s) last).
    split; [reflexivity|]. split; [exact Hr|]. split; [apply lk_nonneg_update; assumption|].
    split; [|split; [|split]].
    + unfold valf. apply amem_true, alookup_in_keys in Em. destruct Em as [v Ev']. rewrite Ev'. reflexivity.
    + intros s' Hne. reflexivity.
    + apply alookup_aupdate_eq.
    + intros s' Hne. apply alookup_aupdate_neq. exact Hne.
  - assert (Hnone : alookup s (dr_costs r) = None).
    { unfold amem in Em. destruct (alookup s (dr_costs r)); [discriminate|reflexivity]. }
    destruct (observe_exact r s (valf zero r last s) Hr Hv) as [Hobs Hok].
    assert (Ecur : Qcmax (aval s (dr_costs r)) (valf zero r last s) = valf zero r last s).
    { unfold aval. rewrite Hnone. apply Qcmax_0_l. exact Hv. }
    rewrite Ecur in Hobs, Hok. rewrite Hobs. cbn [bind].
    eexists. eexists. split; [reflexivity|]. split; [exact Hok|].
    split; [apply lk_nonneg_update; assumption|]. split; [|split; [|split]].
    + cbn [dr_costs]. apply alookup_aupdate_eq.
    + intros s' Hne. cbn [dr_costs]. apply alookup_aupdate_neq. exact Hne.
    + apply alookup_aupdate_eq.
    + intros s' Hne. apply alookup_aupdate_neq. exact Hne.
Qed.

Lemma fill_secs_spec zero cl q : forall r last,
  NoDup q -> rec_ok r -> lk_nonneg last -> lk_nonneg cl -> zero_ok zero q ->
  exists r' last',
    mfold (fill_sec exact CarryClosing zero cl) q (r, last) = Ok (r', last') /\
    rec_ok r' /\ lk_nonneg last' /\
    (forall s, alookup s (dr_costs r') = if nmem s q then Some (valf zero r last s) else alookup s (dr_costs r)) /\
    (forall s, alookup s last' = if nmem s q then Some (carf zero cl r last s) else alookup s last).
Proof.
  induction q as [|s q IH]; intros r last Hn Hr Hl Hcl Hz.
  - exists r, last. cbn [mfold]. unfold nmem. cbn [existsb].
    split; [reflexivity|]. split; [exact Hr|]. split; [exact Hl|]. split; intros s; reflexivity.
  - inversion Hn as [|? ? Hnin Hn']; subst.
    destruct (fill_sec_spec zero cl r last s Hr Hl Hcl (Hz s (or_introl eq_refl)))
      as [r1 [last1 [E1 [Hr1 [Hl1 [Hs1 [Ho1 [Hs2 Ho2]]]]]]]].
    destruct (IH r1 last1 Hn' Hr1 Hl1 Hcl (fun s' H => Hz s' (or_intror H)))
      as [r2 [last2 [E2 [Hr2 [Hl2 [Hc2 Hla2]]]]]].
    exists r2, last2. cbn [mfold]. rewrite E1. cbn [bind]. split; [exact E2|].
    split; [exact Hr2|]. split; [exact Hl2|].
    assert (Hval : forall s', s' <> s -> valf zero r1 last1 s' = valf zero r last s').
    { intros s' Hne. unfold valf, lastval. rewrite (Ho1 s' Hne), (Ho2 s' Hne). reflexivity. }
    split; intros s'; [rewrite Hc2|rewrite Hla2]; unfold nmem; cbn [existsb]; fold (nmem s' q).
    + destruct (N.eqb_spec s' s) as [->|Hne]; cbn [orb].
      * destruct (nmem s q) eqn:E; [apply nmem_true in E; contradiction|]. exact Hs1.
      * destruct (nmem s' q); [rewrite (Hval s' Hne); reflexivity|apply Ho1; exact Hne].
    + destruct (N.eqb_spec s' s) as [->|Hne]; cbn [orb].
      * destruct (nmem s q) eqn:E; [apply nmem_true in E; contradiction|]. exact Hs2.
      * destruct (nmem s' q); [|apply Ho2; exact Hne].
        unfold carf. rewrite (Hval s' Hne). reflexivity.
Qed.

(* ------------------------------------------------------------------ *)
(* the specification by days: carried values                             *)

Definition before (d : Z) (l : list cdelta) : list cdelta := filter (fun c => cd_day c <? d) l.
Definition upto (d : Z) (l : list cdelta) : list cdelta := filter (fun c => cd_day c <=? d) l.
Definition opening (ds : list cdelta) (s : N) : Qc :=
  match rows_of ds s with c :: _ => pre_of c | [] => 0%Qc end.
Definition carry_in (ds : list cdelta) (d : Z) (s : N) : Qc :=
  match last_opt (before d (rows_of ds s)) with Some c => post_of c | None => opening ds s end.
Definition carry_out (ds : list cdelta) (d : Z) (s : N) : Qc :=
  match last_opt (upto d (rows_of ds s)) with Some c => post_of c | None => opening ds s end.

Lemma spec_cost_unfold ds d s :
  spec_cost ds d s = match dmax ds d s with Some m => m | None => carry_in ds d s end.
Proof. reflexivity. Qed.

Lemma before_nil d r : Forall (fun b => d <= cd_day b) r -> filter (fun c => cd_day c <? d) r = [].
Proof.
  induction 1 as [|b t Hb _ IH]; [reflexivity|]. cbn [filter].
  destruct (Z.ltb_spec (cd_day b) d); [lia|]. exact IH.
Qed.

Lemma upto_split d l :
  StronglySorted (fun a b => cd_day a <= cd_day b) l -> upto d l = before d l ++ on_day d l.
Proof.
  induction 1 as [|a r Hs IH Hall]; [reflexivity|].
  unfold upto, before, on_day in *. cbn [filter].
  destruct (Z.ltb_spec (cd_day a) d) as [Hlt|Hge].
  - destruct (Z.leb_spec (cd_day a) d) as [_|H]; [|lia].
    destruct (Z.eqb_spec (cd_day a) d) as [E|_]; [lia|]. cbn [app]. f_equal. exact IH.
  - destruct (Z.eqb_spec (cd_day a) d) as [E|Hne].
    + destruct (Z.leb_spec (cd_day a) d) as [_|H]; [|lia].
      assert (Hb : filter (fun c => cd_day c <? d) r = []).
      { apply before_nil. eapply Forall_impl; [|exact Hall]. intros b Hb. cbn beta in Hb. lia. }
      rewrite Hb in *. cbn [app] in *. f_equal. exact IH.
    + destruct (Z.leb_spec (cd_day a) d) as [H|_]; [lia|]. exact IH.
Qed.

Lemma qmax_map_none {X} (f : X -> Qc) l : qmax_list (map f l) = None <-> l = [].
Proof. destruct l; cbn [map qmax_list]; split; intros H; try reflexivity; discriminate. Qed.

Lemma dmax_none_on ds d s : dmax ds d s = None <-> on_day d (rows_of ds s) = [].
Proof. apply qmax_map_none. Qed.

Lemma dclose_on ds d s :
  dclose ds d s = match last_opt (on_day d (rows_of ds s)) with Some c => Some (post_of c) | None => None end.
Proof. unfold dclose. destruct (last_opt _); reflexivity. Qed.

Lemma last_opt_none {X} (l : list X) : last_opt l = None <-> l = [].
Proof.
  split; [|intros ->; reflexivity]. induction l as [|a r IH]; [reflexivity|].
  cbn [last_opt]. destruct r; [discriminate|]. intros H. apply IH in H. discriminate.
Qed.

(* value carried out of a day, in terms of what the model has at hand *)
Lemma carry_out_eq ds d s :
  chronological ds ->
  carry_out ds d s = match dclose ds d s with
                     | Some c => c
                     | None => match dmax ds d s with Some m => m | None => carry_in ds d s end
                     end.
Proof.
  intros Hch. unfold carry_out. rewrite (upto_split d _ (Hch s)), dclose_on.
  destruct (on_day d (rows_of ds s)) as [|a t] eqn:E.
  - rewrite app_nil_r. cbn [last_opt]. rewrite (proj2 (dmax_none_on ds d s) E). reflexivity.
  - rewrite last_opt_app by discriminate.
    destruct (last_opt (a :: t)) as [c|] eqn:El; [reflexivity|].
    apply last_opt_none in El. discriminate.
Qed.

(* ------------------------------------------------------------------ *)
(* second loop over the sorted days                                      *)

Lemma sorted_le_nodup_lt l : StronglySorted Z.le l -> NoDup l -> StronglySorted Z.lt l.
Proof.
  induction 1 as [|a r Hs IH Hall]; intros Hn; [constructor|].
  inversion Hn as [|? ? Hnin Hn']; subst. constructor; [apply IH; exact Hn'|].
  rewrite Forall_forall in *. intros x Hx. specialize (Hall x Hx).
  assert (x <> a) by (intros ->; contradiction). lia.
Qed.

Lemma sorted_lt_mid (l1 : list Z) d l2 :
  StronglySorted Z.lt (l1 ++ d :: l2) -> (forall x, In x l1 -> x < d) /\ (forall x, In x l2 -> d < x).
Proof.
  induction l1 as [|a r IH]; cbn [app]; intros H.
  - inversion H as [|? ? _ Hall]; subst. rewrite Forall_forall in Hall. split; [intros x []|exact Hall].
  - inversion H as [|? ? Hs Hall]; subst. destruct (IH Hs) as [H1 H2]. split; [|exact H2].
    intros x [<-|Hx]; [|apply H1; exact Hx].
    rewrite Forall_forall in Hall. apply Hall. apply in_or_app. right. left. reflexivity.
Qed.

Lemma zupdate_same_keys {V} k (v v0 : V) l :
  zlookup k l = Some v0 -> map fst (zupdate k v l) = map fst l.
Proof.
  intros H. rewrite zupdate_keys.
  destruct (existsb (Z.eqb k) (map fst l)) eqn:E; [reflexivity|].
  assert (Hin : In k (map fst l)) by (apply zlookup_in_keys; eauto).
  apply existsb_zeqb_in in Hin. congruence.
Qed.

Section Loop2.
  Variable ds : list cdelta.
  Variable st : st1.
  Hypothesis HI : Inv1 ds st.
  Hypothesis Hv : Forall valid_delta ds.
  Hypothesis Hch : chronological ds.

  (* the order in which the security set is walked: any enumeration of it *)
  Variable so : list N.
  Hypothesis Hso : Permutation so (s_secs st).
  Let D := zsort (map fst (s_days st)).
  Let zero := s_zero st.

  Lemma so_nodup : NoDup so.
  Proof. eapply Permutation_NoDup; [apply Permutation_sym; exact Hso|apply (i_secs _ _ HI)]. Qed.
  Lemma so_in s : In s so <-> rows_of ds s <> [].
  Proof.
    rewrite <- (i_secs_in _ _ HI). split; intros H; eapply Permutation_in; try eassumption.
    apply Permutation_sym. exact Hso.
  Qed.

  Lemma row_facts s c : In c (rows_of ds s) -> In c ds /\ counted c = true /\ cd_sec c = s.
  Proof.
    unfold rows_of. rewrite filter_In. intros [Hin Hb]. apply andb_prop in Hb. destruct Hb as [Hc Hs].
    apply N.eqb_eq in Hs. auto.
  Qed.
  Lemma row_post_nonneg s c : In c (rows_of ds s) -> (0 <= post_of c)%Qc.
  Proof.
    intros H. destruct (row_facts s c H) as [Hin [Hc _]]. rewrite Forall_forall in Hv.
    destruct (Hv c Hin Hc) as [[p [Ep Hp]] _]. unfold post_of. rewrite Ep. exact Hp.
  Qed.
  Lemma row_pre_nonneg s c : In c (rows_of ds s) -> (0 <= pre_of c)%Qc.
  Proof.
    intros H. destruct (row_facts s c H) as [Hin [Hc _]]. rewrite Forall_forall in Hv.
    destruct (Hv c Hin Hc) as [_ [q [Eq Hq]]]. unfold pre_of. rewrite Eq. exact Hq.
  Qed.
  Lemma row_day_in_D s c : In c (rows_of ds s) -> In (cd_day c) D.
  Proof.
    intros H. destruct (row_facts s c H) as [Hin [Hc _]]. unfold D. rewrite zsort_in.
    apply (i_keys_in _ _ HI). exists c. auto.
  Qed.

  Lemma D_sorted : StronglySorted Z.lt D.
  Proof.
    apply sorted_le_nodup_lt; [apply zsort_sorted|].
    eapply Permutation_NoDup; [apply Permutation_sym, zsort_perm|apply (i_keys _ _ HI)].
  Qed.

  Lemma zero_ok_so : zero_ok zero so.
  Proof.
    intros s Hs. apply so_in in Hs. unfold zero. rewrite (i_zero _ _ HI). unfold zero_of.
    destruct (rows_of ds s) as [|c0 t] eqn:E; [contradiction|].
    exists (cd_day c0), (pre_of c0). split; [reflexivity|]. apply (row_pre_nonneg s). rewrite E. left. reflexivity.
  Qed.

  Lemma zero_pre_opening s : In s so -> zero_pre zero s = opening ds s.
  Proof.
    intros Hs. apply so_in in Hs. unfold zero_pre, zero, opening. rewrite (i_zero _ _ HI). unfold zero_of.
    destruct (rows_of ds s); [contradiction|reflexivity].
  Qed.

  Lemma last_opt_in {X} (l : list X) x : last_opt l = Some x -> In x l.
  Proof.
    induction l as [|a r IH]; [discriminate|]. cbn [last_opt]. destruct r as [|b t].
    - intros H. inversion H. left. reflexivity.
    - intros H. right. apply IH. exact H.
  Qed.

  Lemma close_nonneg d : lk_nonneg (match zlookup d (s_close st) with Some c => c | None => [] end).
  Proof.
    intros s v H.
    assert (E : close_at (s_close st) d s = Some v).
    { unfold close_at. destruct (zlookup d (s_close st)); [exact H|discriminate]. }
    rewrite (i_close _ _ HI), dclose_on in E.
    destruct (last_opt (on_day d (rows_of ds s))) as [c|] eqn:El; [|discriminate].
    inversion E; subst. apply (row_post_nonneg s). apply last_opt_in in El.
    unfold on_day in El. apply filter_In in El. tauto.
  Qed.

  Record Inv2 (Dp : list Z) (x : list (Z * dayrec) * list (N * Qc)) : Prop := {
    j_keys : map fst (fst x) = map fst (s_days st);
    j_done : forall d, In d Dp -> exists r,
               zlookup d (fst x) = Some r /\ rec_ok r /\
               (forall s, In s so -> alookup s (dr_costs r) = Some (spec_cost ds d s)) /\
               (forall s, In s (map fst (dr_costs r)) -> In s so);
    j_todo : forall d, ~ In d Dp -> zlookup d (fst x) = zlookup d (s_days st);
    j_lastn : lk_nonneg (snd x);
    j_lastv : forall s d', In s so -> (forall y, In y Dp -> y < d') ->
                           (forall y, In y D -> y < d' -> In y Dp) ->
                           lastval zero (snd x) s = carry_in ds d' s
  }.

  Lemma before_nil_D d s : (forall y, In y D -> ~ y < d) -> before d (rows_of ds s) = [].
  Proof.
    intros H. unfold before. apply before_nil. rewrite Forall_forall. intros c Hc.
    specialize (H _ (row_day_in_D s c Hc)). lia.
  Qed.

  Lemma Inv2_init : Inv2 [] (s_days st, []).
  Proof.
    constructor; cbn [fst snd].
    - reflexivity.
    - intros d [].
    - reflexivity.
    - intros s v H. discriminate.
    - intros s d' Hs _ Hno. unfold lastval. cbn [alookup]. rewrite (zero_pre_opening s Hs).
      unfold carry_in. rewrite before_nil_D; [reflexivity|]. intros y Hy Hlt. apply (Hno y Hy Hlt).
  Qed.

  Lemma nmem_so s : In s so -> nmem s so = true.
  Proof. apply nmem_true. Qed.

  Lemma day_step Dp d' Dr x :
    D = Dp ++ d' :: Dr -> Inv2 Dp x ->
    exists x', fill_day exact CarryClosing zero (s_close st) so x d' = Ok x' /\ Inv2 (Dp ++ [d']) x'.
  Proof.
    intros HD HJ. destruct x as [days last].
    assert (Hsorted := D_sorted). rewrite HD in Hsorted.
    destruct (sorted_lt_mid Dp d' Dr Hsorted) as [Hlt Hgt].
    assert (HdD : In d' D) by (rewrite HD; apply in_or_app; right; left; reflexivity).
    assert (Hnotin : ~ In d' Dp) by (intros H; specialize (Hlt _ H); lia).
    assert (Hsplit : forall y, In y D -> y < d' -> In y Dp).
    { intros y Hy Hyd. rewrite HD in Hy. apply in_app_or in Hy. destruct Hy as [Hy|[Hy|Hy]]; [exact Hy|lia|].
      specialize (Hgt _ Hy). lia. }
    assert (Hkey : In d' (map fst (s_days st))) by (apply (proj1 (zsort_in d' _)); exact HdD).
    apply zlookup_in_keys in Hkey. destruct Hkey as [r0 Er0].
    assert (Er0' : zlookup d' days = Some r0).
    { assert (Ht := j_todo _ _ HJ d' Hnotin). cbn [fst] in Ht. rewrite Ht. exact Er0. }
    assert (Hr0 : rec_ok r0) by (eapply (i_days_ok _ _ HI); exact Er0).
    assert (Hr0c : forall s, alookup s (dr_costs r0) = dmax ds d' s).
    { intros s. rewrite <- (i_days _ _ HI). unfold day_costs. rewrite Er0. reflexivity. }
    set (cl := match zlookup d' (s_close st) with Some c => c | None => [] end).
    assert (Hcl : forall s, alookup s cl = dclose ds d' s).
    { intros s. rewrite <- (i_close _ _ HI). unfold close_at, cl. destruct (zlookup d' (s_close st)); reflexivity. }
    destruct (fill_secs_spec zero cl so r0 last so_nodup Hr0 (j_lastn _ _ HJ) (close_nonneg d') zero_ok_so)
      as [r' [last' [E [Hr' [Hl' [Hc' Hla']]]]]].
    assert (Hvalf : forall s, In s so -> valf zero r0 last s = spec_cost ds d' s).
    { intros s Hs. rewrite spec_cost_unfold. unfold valf. rewrite Hr0c.
      destruct (dmax ds d' s); [reflexivity|].
      apply (j_lastv _ _ HJ s d' Hs Hlt Hsplit). }
    exists (zupdate d' r' days, last'). split.
    - unfold fill_day. cbn [fst snd]. rewrite Er0'. fold cl. rewrite E. reflexivity.
    - constructor; cbn [fst snd].
      + rewrite (zupdate_same_keys d' r' r0 days Er0'). apply (j_keys _ _ HJ).
      + intros d Hd. apply in_app_or in Hd. destruct Hd as [Hd|[<-|[]]].
        * assert (d <> d') by (intros ->; contradiction).
          rewrite zlookup_zupdate_neq by assumption. apply (j_done _ _ HJ d Hd).
        * exists r'. rewrite zlookup_zupdate_eq. split; [reflexivity|]. split; [exact Hr'|]. split.
          -- intros s Hs. rewrite Hc', (nmem_so s Hs), (Hvalf s Hs). reflexivity.
          -- intros s Hs. apply alookup_in_keys in Hs. destruct Hs as [v Hs]. rewrite Hc' in Hs.
             destruct (nmem s so) eqn:En; [apply nmem_true; exact En|].
             apply so_in. intros Hnil. rewrite Hr0c in Hs. unfold dmax in Hs. rewrite Hnil in Hs. discriminate.
      + intros d Hd. assert (d <> d') by (intros ->; apply Hd; apply in_or_app; right; left; reflexivity).
        rewrite zlookup_zupdate_neq by assumption. apply (j_todo _ _ HJ).
        intros Hin. apply Hd. apply in_or_app. left. exact Hin.
      + exact Hl'.
      + intros s d'' Hs Hall Honly. unfold lastval. rewrite Hla', (nmem_so s Hs).
        assert (Hcar : carf zero cl r0 last s = carry_out ds d' s).
        { rewrite (carry_out_eq ds d' s Hch). unfold carf. rewrite Hcl.
          destruct (dclose ds d' s); [reflexivity|]. rewrite (Hvalf s Hs). apply spec_cost_unfold. }
        rewrite Hcar.
        assert (Hf : before d'' (rows_of ds s) = upto d' (rows_of ds s));
          [|unfold carry_in, carry_out; rewrite Hf; reflexivity].
        unfold before, upto. apply filter_ext_in. intros c Hc.
        assert (HyD := row_day_in_D s c Hc). set (y := cd_day c) in *.
        assert (Hd'' : d' < d'') by (apply Hall; apply in_or_app; right; left; reflexivity).
        destruct (Z.leb_spec y d') as [Hle|Hgt'].
        * apply Z.ltb_lt. lia.
        * apply Z.ltb_ge. destruct (Z.lt_ge_cases y d'') as [Hlt''|Hge]; [|lia].
          specialize (Honly y HyD Hlt''). apply in_app_or in Honly. destruct Honly as [Hin|[Hin|[]]]; [|lia].
          specialize (Hlt y Hin). lia.
  Qed.

  Lemma loop2_days Dr : forall Dp x,
    D = Dp ++ Dr -> Inv2 Dp x ->
    exists x', mfold (fill_day exact CarryClosing zero (s_close st) so) Dr x = Ok x' /\ Inv2 D x'.
  Proof.
    induction Dr as [|d' Dr IH]; intros Dp x HD HJ.
    - exists x. split; [reflexivity|]. rewrite HD, app_nil_r. exact HJ.
    - destruct (day_step Dp d' Dr x HD HJ) as [x1 [E1 HJ1]].
      destruct (IH (Dp ++ [d']) x1) as [x2 [E2 HJ2]]; [rewrite <- app_assoc; exact HD|exact HJ1|].
      exists x2. cbn [mfold]. rewrite E1. cbn [bind]. split; assumption.
  Qed.

  Lemma loop2_spec :
    exists days last, loop2 exact CarryClosing so st = Ok days /\ Inv2 D (days, last).
  Proof.
    destruct (loop2_days D [] (s_days st, []) eq_refl Inv2_init) as [[days last] [E HJ]].
    exists days, last. split; [|exact HJ].
    unfold loop2. fold D zero. rewrite E. reflexivity.
  Qed.

  (* ---- what the final day map says ---- *)
  Lemma final_day days last d :
    Inv2 D (days, last) -> In d D ->
    exists r, zlookup d days = Some r /\
              (forall s, In s so -> alookup s (dr_costs r) = Some (spec_cost ds d s)) /\
              dr_total r = qsum (map (spec_cost ds d) so).
  Proof.
    intros HJ Hd. destruct (j_done _ _ HJ d Hd) as [r [Er [Hr [Hc Hk]]]]. cbn [fst] in Er.
    exists r. split; [exact Er|]. split; [exact Hc|].
    destruct Hr as [Ht [Hn _]]. rewrite Ht.
    rewrite (asum_over (dr_costs r) so Hn so_nodup).
    - f_equal. apply map_ext_in. intros s Hs. unfold aval. rewrite (Hc s Hs). reflexivity.
    - intros s. split; [|apply Hk]. intros Hs. apply alookup_in_keys. eexists. apply (Hc s Hs).
  Qed.
End Loop2.

(* ------------------------------------------------------------------ *)
(* yearly maximum                                                        *)

Section Picks.
  Variable days : list (Z * dayrec).
  Variable T : Z -> Qc.
  Variable D : list Z.
  Hypothesis HD : StronglySorted Z.lt D.
  Hypothesis Hdays : forall d, In d D -> exists r, zlookup d days = Some r /\ dr_total r = T d.

  Definition better (d d' : Z) : Prop := (T d' < T d)%Qc \/ (T d' = T d /\ d <= d').

  Record PInv (Dp : list Z) (picks : list (Z * Z)) : Prop := {
    p_nodup : NoDup (map fst picks);
    p_pick : forall y d, zlookup y picks = Some d ->
                         In d Dp /\ year_of d = y /\
                         forall d', In d' Dp -> year_of d' = y -> better d d';
    p_years : forall d', In d' Dp -> In (year_of d') (map fst picks)
  }.

  Lemma pick_step_spec Dp d Dr picks :
    D = Dp ++ d :: Dr -> PInv Dp picks ->
    exists picks', pick_step days picks d = Ok picks' /\ PInv (Dp ++ [d]) picks'.
  Proof.
    intros E HP. assert (Hs := HD). rewrite E in Hs.
    destruct (sorted_lt_mid Dp d Dr Hs) as [Hlt _].
    assert (HdD : In d D) by (rewrite E; apply in_or_app; right; left; reflexivity).
    destruct (Hdays d HdD) as [r [Er Hr]].
    unfold pick_step. rewrite Er.
    assert (Hnew : forall picks0, PInv Dp picks0 ->
              (forall d0, zlookup (year_of d) picks0 = Some d0 -> (T d0 < T d)%Qc) ->
              PInv (Dp ++ [d]) (zupdate (year_of d) d picks0)).
    { intros picks0 HP0 Hold. constructor.
      - apply zupdate_nodup. apply (p_nodup _ _ HP0).
      - intros y d1. destruct (Z.eq_dec y (year_of d)) as [->|Hne].
        + rewrite zlookup_zupdate_eq. intros H. inversion H; subst d1.
          split; [apply in_or_app; right; left; reflexivity|]. split; [reflexivity|].
          intros d' Hd' Hy. apply in_app_or in Hd'. destruct Hd' as [Hd'|[<-|[]]].
          * left. (* an earlier day of the same year: the old pick was at least as good *)
            assert (Hk := p_years _ _ HP0 d' Hd'). rewrite Hy in Hk.
            apply zlookup_in_keys in Hk. destruct Hk as [d0 Ed0].
            destruct (p_pick _ _ HP0 _ _ Ed0) as [_ [_ Hb]].
            specialize (Hold d0 Ed0). destruct (Hb d' Hd' Hy) as [H1|[H1 _]].
            -- eapply Qclt_trans; eassumption.
            -- rewrite H1. exact Hold.
          * right. split; [reflexivity|lia].
        + rewrite zlookup_zupdate_neq by exact Hne. intros H.
          destruct (p_pick _ _ HP0 _ _ H) as [Hin [Hy Hb]].
          split; [apply in_or_app; left; exact Hin|]. split; [exact Hy|].
          intros d' Hd' Hy'. apply in_app_or in Hd'. destruct Hd' as [Hd'|[<-|[]]]; [apply Hb; assumption|].
          congruence.
      - intros d' Hd'. apply zupdate_keys_in. apply in_app_or in Hd'.
        destruct Hd' as [Hd'|[<-|[]]]; [right; apply (p_years _ _ HP0); exact Hd'|left; reflexivity]. }
    destruct (zlookup (year_of d) picks) as [old|] eqn:Eo.
    - destruct (p_pick _ _ HP _ _ Eo) as [Hin [Hy Hb]].
      assert (HoD : In old D) by (rewrite E; apply in_or_app; left; exact Hin).
      destruct (Hdays old HoD) as [ro [Ero Hro]]. rewrite Ero, Hro, Hr.
      destruct (Qcltb (T old) (T d)) eqn:Ecmp.
      + eexists. split; [reflexivity|]. apply Hnew; [exact HP|].
        intros d0 Hd0. rewrite Eo in Hd0. inversion Hd0; subst. apply Qcltb_true. exact Ecmp.
      + exists picks. split; [reflexivity|]. apply Qcltb_false in Ecmp. constructor.
        * apply (p_nodup _ _ HP).
        * intros y d1 H. destruct (p_pick _ _ HP _ _ H) as [Hin1 [Hy1 Hb1]].
          split; [apply in_or_app; left; exact Hin1|]. split; [exact Hy1|].
          intros d' Hd' Hy'. apply in_app_or in Hd'. destruct Hd' as [Hd'|[<-|[]]]; [apply Hb1; assumption|].
          (* the new day does not beat the old pick, and is later *)
          assert (d1 = old) by (rewrite <- Hy', Eo in H; inversion H; reflexivity). subst d1.
          specialize (Hlt old Hin). unfold better.
          destruct (Qc_dec (T d) (T old)) as [[Hl|Hg]|He].
          -- left. exact Hl.
          -- exfalso. eapply Qclt_not_le; eassumption.
          -- right. split; [exact He|lia].
        * intros d' Hd'. apply in_app_or in Hd'. destruct Hd' as [Hd'|[<-|[]]]; [apply (p_years _ _ HP); exact Hd'|].
          apply zlookup_in_keys. eauto.
    - eexists. split; [reflexivity|]. apply Hnew; [exact HP|]. intros d0 Hd0. rewrite Eo in Hd0. discriminate.
  Qed.

  Lemma picks_loop Dr : forall Dp picks,
    D = Dp ++ Dr -> PInv Dp picks ->
    exists picks', mfold (pick_step days) Dr picks = Ok picks' /\ PInv D picks'.
  Proof.
    induction Dr as [|d Dr IH]; intros Dp picks E HP.
    - exists picks. split; [reflexivity|]. rewrite E, app_nil_r. exact HP.
    - destruct (pick_step_spec Dp d Dr picks E HP) as [p1 [E1 HP1]].
      destruct (IH (Dp ++ [d]) p1) as [p2 [E2 HP2]]; [rewrite <- app_assoc; exact E|exact HP1|].
      exists p2. cbn [mfold]. rewrite E1. cbn [bind]. split; assumption.
  Qed.

  Lemma yearly_picks_spec : exists picks, yearly_picks D days = Ok picks /\ PInv D picks.
  Proof.
    apply (picks_loop D [] []); [reflexivity|]. constructor.
    - constructor.
    - intros y d H. discriminate.
    - intros d' [].
  Qed.
End Picks.

(* ------------------------------------------------------------------ *)
(* the key lists of the model are the day / security lists of the spec   *)

Lemma zdedup_in x l : In x (zdedup l) <-> In x l.
Proof.
  induction l as [|a r IH]; cbn [zdedup]; [tauto|]. cbn [In]. rewrite filter_In, IH.
  destruct (Z.eqb_spec x a) as [->|Hne]; cbn [negb]; intuition congruence.
Qed.
Lemma zdedup_nodup l : NoDup (zdedup l).
Proof.
  induction l as [|a r IH]; cbn [zdedup]; constructor.
  - rewrite filter_In. intros [_ H]. rewrite Z.eqb_refl in H. discriminate.
  - apply NoDup_filter. exact IH.
Qed.
Lemma ndedup_in x l : In x (ndedup l) <-> In x l.
Proof.
  induction l as [|a r IH]; cbn [ndedup]; [tauto|]. cbn [In]. rewrite filter_In, IH.
  destruct (N.eqb_spec x a) as [->|Hne]; cbn [negb]; intuition congruence.
Qed.
Lemma ndedup_nodup l : NoDup (ndedup l).
Proof.
  induction l as [|a r IH]; cbn [ndedup]; constructor.
  - rewrite filter_In. intros [_ H]. rewrite N.eqb_refl in H. discriminate.
  - apply NoDup_filter. exact IH.
Qed.

Lemma filter_nonnil {X} (f : X -> bool) l : filter f l <> [] <-> exists x, In x l /\ f x = true.
Proof.
  split.
  - intros H. destruct (filter f l) as [|x t] eqn:E; [contradiction|].
    exists x. apply filter_In. rewrite E. left. reflexivity.
  - intros [x Hx] E. apply filter_In in Hx. rewrite E in Hx. destruct Hx.
Qed.

Lemma model_secs_spec ds st : Inv1 ds st -> nsort (s_secs st) = spec_secs ds.
Proof.
  intros HI. unfold spec_secs. apply nsort_perm_eq. apply NoDup_Permutation.
  - apply (i_secs _ _ HI).
  - apply ndedup_nodup.
  - intros s. rewrite (i_secs_in _ _ HI), ndedup_in, in_map_iff. unfold rows_of. rewrite filter_nonnil.
    split.
    + intros [c [Hin Hb]]. apply andb_prop in Hb. destruct Hb as [Hc Hs]. apply N.eqb_eq in Hs.
      exists c. split; [exact Hs|]. apply filter_In. auto.
    + intros [c [Hs Hin]]. apply filter_In in Hin. destruct Hin as [Hin Hc].
      exists c. split; [exact Hin|]. rewrite Hc, Hs, N.eqb_refl. reflexivity.
Qed.

Lemma model_days_spec ds st : Inv1 ds st -> zsort (map fst (s_days st)) = spec_days ds.
Proof.
  intros HI. unfold spec_days. apply zsort_perm_eq. apply NoDup_Permutation.
  - apply (i_keys _ _ HI).
  - apply zdedup_nodup.
  - intros d. rewrite (i_keys_in _ _ HI), zdedup_in, in_map_iff. split.
    + intros [c [Hin [Hc Hd]]]. exists c. split; [exact Hd|]. apply filter_In. auto.
    + intros [c [Hd Hin]]. apply filter_In in Hin. destruct Hin as [Hin Hc]. exists c. auto.
Qed.

Lemma mmap_all {X Y} (f : X -> res Y) (g : X -> Y) l :
  (forall x, In x l -> f x = Ok (g x)) -> mmap f l = Ok (map g l).
Proof.
  induction l as [|x r IH]; intros H; cbn [mmap map]; [reflexivity|].
  rewrite (H x (or_introl eq_refl)). cbn [bind]. rewrite IH; [reflexivity|].
  intros y Hy. apply H. right. exact Hy.
Qed.

Lemma mmap_rel {X Y} (f : X -> res Y) (P : X -> Y -> Prop) l :
  (forall x, In x l -> exists y, f x = Ok y /\ P x y) ->
  exists ys, mmap f l = Ok ys /\ Forall2 P l ys.
Proof.
  induction l as [|x r IH]; intros H; cbn [mmap].
  - exists []. split; [reflexivity|constructor].
  - destruct (H x (or_introl eq_refl)) as [y [Ey Py]].
    destruct IH as [ys [Eys Pys]]; [intros z Hz; apply H; right; exact Hz|].
    exists (y :: ys). rewrite Ey. cbn [bind]. rewrite Eys. cbn [bind]. split; [reflexivity|].
    constructor; assumption.
Qed.

(* ------------------------------------------------------------------ *)
(* the refinement theorem                                                *)

Theorem costs_refines_spec_any_order (sec_order : list N -> list N) ds :
  (forall l, Permutation (sec_order l) l) ->
  Forall valid_delta ds -> Forall faithful_delta ds -> chronological ds ->
  exists t, costs_with exact CarryClosing sec_order zsort ds = Ok t /\
            ct_secs t = spec_secs ds /\ ct_total t = spec_table ds /\
            ct_notes t = spec_notes ds /\ yearly_ok ds (ct_yearly t).
Proof.
  intros Hord Hv Hf Hch.
  destruct (loop1_spec ds Hv Hf Hch) as [st [E1 HI]].
  destruct (loop2_spec ds st HI Hv Hch (sec_order (s_secs st)) (Hord _)) as [days [last [E2 HJ]]].
  pose proof (model_secs_spec ds st HI) as Hsecs.
  pose proof (model_days_spec ds st HI) as Hdays.
  assert (Hkeys : map fst days = map fst (s_days st)) by (apply (j_keys _ _ _ _ _ HJ)).
  assert (Hperm : Permutation (sec_order (s_secs st)) (spec_secs ds)).
  { rewrite <- Hsecs. eapply Permutation_trans; [apply Hord|apply Permutation_sym, nsort_perm]. }
  assert (Hfinal : forall d, In d (spec_days ds) ->
            exists r, zlookup d days = Some r /\
                      render_costs (spec_secs ds) r = Ok (spec_costs ds d) /\
                      dr_total r = spec_total ds d).
  { intros d Hd. rewrite <- Hdays in Hd.
    destruct (final_day ds st HI _ (Hord _) days last d HJ Hd) as [r [Er [Hc Ht]]].
    exists r. split; [exact Er|]. split.
    - unfold render_costs, spec_costs. apply mmap_all. intros s Hs. rewrite Hc; [reflexivity|].
      eapply Permutation_in; [apply Permutation_sym; exact Hperm|exact Hs].
    - rewrite Ht. unfold spec_total, spec_costs. apply qsum_perm. apply Permutation_map. exact Hperm. }
  assert (Hsorted : StronglySorted Z.lt (spec_days ds)).
  { rewrite <- Hdays. apply (D_sorted ds st HI). }
  destruct (yearly_picks_spec days (spec_total ds) (spec_days ds) Hsorted) as [picks [E3 HP]].
  { intros d Hd. destruct (Hfinal d Hd) as [r [Er [_ Ht]]]. eauto. }
  (* the Total Costs rows *)
  assert (Etotal : mmap (render_day (spec_secs ds) days) (spec_days ds) = Ok (spec_table ds)).
  { unfold spec_table. apply mmap_all. intros d Hd. destruct (Hfinal d Hd) as [r [Er [Hc Ht]]].
    unfold render_day. rewrite Er, Hc. cbn [bind]. rewrite Ht. reflexivity. }
  (* the Yearly Max rows *)
  assert (Hyears : zsort (map fst picks) = spec_years ds).
  { unfold spec_years. apply zsort_perm_eq. apply NoDup_Permutation.
    - apply (p_nodup _ _ _ HP).
    - apply zdedup_nodup.
    - intros y. split.
      + intros Hy. apply zlookup_in_keys in Hy. destruct Hy as [d Ed].
        destruct (p_pick _ _ _ HP _ _ Ed) as [Hin [Hy _]].
        apply zdedup_in. apply in_map_iff. exists d. auto.
      + intros Hy. apply zdedup_in, in_map_iff in Hy. destruct Hy as [d [Hy Hd]]. subst y.
        apply (p_years _ _ _ HP). exact Hd. }
  destruct (mmap_rel (render_year (spec_secs ds) days picks)
                     (fun y (r : yrow) => fst (fst (fst r)) = y /\ yrow_ok ds r) (spec_years ds))
    as [yr [E4 Hyr]].
  { intros y Hy. rewrite <- Hyears in Hy. apply zsort_in, zlookup_in_keys in Hy. destruct Hy as [d Ed].
    destruct (p_pick _ _ _ HP _ _ Ed) as [Hin [Hyd Hb]].
    destruct (Hfinal d Hin) as [r [Er [Hc Ht]]].
    unfold render_year. rewrite Ed, Er, Hc. cbn [bind]. eexists. split; [reflexivity|].
    split; [reflexivity|]. unfold yrow_ok. rewrite Ht.
    split; [exact Hin|]. split; [exact Hyd|]. split; [reflexivity|].
    intros d' Hd' Hy'. apply (Hb d' Hd' Hy'). }
  eexists. split.
  - unfold costs_with. rewrite E1. cbn [bind]. rewrite E2. cbn [bind].
    rewrite Hkeys, Hdays, E3. cbn [bind]. rewrite Hsecs, Etotal. cbn [bind].
    rewrite Hyears, E4. cbn [bind]. reflexivity.
  - cbn [ct_secs ct_total ct_notes ct_yearly]. split; [reflexivity|]. split; [reflexivity|].
    split; [apply (i_notes _ _ HI)|]. unfold yearly_ok. split.
    + clear E4 Hyears. revert Hyr. generalize (spec_years ds). intros l Hyr.
      induction Hyr as [|y r ys rs [Hy _] _ IH]; cbn [map]; [reflexivity|]. rewrite Hy, IH. reflexivity.
    + clear E4 Hyears. revert Hyr. generalize (spec_years ds). intros l Hyr.
      induction Hyr as [|y r ys rs [_ Hok] _ IH]; constructor; assumption.
Qed.

Theorem costs_refines_spec ds :
  Forall valid_delta ds -> Forall faithful_delta ds -> chronological ds ->
  exists t, costs exact ds = Ok t /\
            ct_secs t = spec_secs ds /\ ct_total t = spec_table ds /\
            ct_notes t = spec_notes ds /\ yearly_ok ds (ct_yearly t).
Proof. apply (costs_refines_spec_any_order nsort). apply nsort_perm. Qed.

(* under exact arithmetic the order in which the security set is walked in the
   carry-forward loop does not matter at all (C09: the sum site costs.rs) *)
Theorem costs_exact_any_sec_order (sec_order : list N -> list N) ds :
  (forall l, Permutation (sec_order l) l) ->
  Forall valid_delta ds -> Forall faithful_delta ds -> chronological ds ->
  forall t t', costs_with exact CarryClosing sec_order zsort ds = Ok t -> costs exact ds = Ok t' ->
  ct_secs t = ct_secs t' /\ ct_total t = ct_total t' /\ ct_notes t = ct_notes t'.
Proof.
  intros Hord Hv Hf Hch t t' E E'.
  destruct (costs_refines_spec_any_order sec_order ds Hord Hv Hf Hch) as [t1 [E1 [A1 [B1 [C1 _]]]]].
  destruct (costs_refines_spec ds Hv Hf Hch) as [t2 [E2 [A2 [B2 [C2 _]]]]].
  rewrite E in E1. rewrite E' in E2. inversion E1; inversion E2; subst. repeat split; congruence.
Qed.

(* ------------------------------------------------------------------ *)
(* what the executable specification means                               *)

Lemma Qcmax_cases a b : (Qcmax a b = a /\ (b <= a)%Qc) \/ (Qcmax a b = b /\ (a <= b)%Qc).
Proof.
  unfold Qcmax. destruct (Qcltb a b) eqn:E; qc_bool; [right|left]; split; try reflexivity; try assumption.
  apply Qclt_le_weak. exact E.
Qed.

Lemma fold_max_spec r : forall x,
  In (fold_left Qcmax r x) (x :: r) /\ Forall (fun y => (y <= fold_left Qcmax r x)%Qc) (x :: r).
Proof.
  induction r as [|a r IH]; intros x; cbn [fold_left].
  - split; [left; reflexivity|]. constructor; [apply Qcle_refl|constructor].
  - destruct (IH (Qcmax x a)) as [Hin Hall]. inversion Hall as [|? ? Hm Hr]; subst.
    destruct (Qcmax_cases x a) as [[E Hle]|[E Hle]]; rewrite E in *.
    + split.
      * destruct Hin as [Hin|Hin]; [left; exact Hin|right; right; exact Hin].
      * constructor; [exact Hm|]. constructor; [eapply Qcle_trans; eassumption|exact Hr].
    + split.
      * destruct Hin as [Hin|Hin]; [right; left; exact Hin|right; right; exact Hin].
      * constructor; [eapply Qcle_trans; eassumption|]. constructor; [exact Hm|exact Hr].
Qed.

(* qmax_list is the greatest element *)
Lemma qmax_list_spec l m : qmax_list l = Some m -> In m l /\ Forall (fun y => (y <= m)%Qc) l.
Proof.
  destruct l as [|x r]; cbn [qmax_list]; [discriminate|]. intros H. inversion H; subst.
  apply fold_max_spec.
Qed.

Lemma StronglySorted_filter {X} (R : X -> X -> Prop) f l :
  StronglySorted R l -> StronglySorted R (filter f l).
Proof.
  induction 1 as [|a r Hs IH Hall]; cbn [filter]; [constructor|].
  destruct (f a); [|exact IH]. constructor; [exact IH|].
  rewrite Forall_forall in *. intros x Hx. apply filter_In in Hx. apply Hall. tauto.
Qed.

Lemma last_opt_sorted_max {X} (R : X -> X -> Prop) l c :
  StronglySorted R l -> last_opt l = Some c -> forall x, In x l -> x = c \/ R x c.
Proof.
  induction 1 as [|a r Hs IH Hall]; [discriminate|].
  cbn [last_opt]. destruct r as [|b t].
  - intros H x [<-|[]]. inversion H. left. reflexivity.
  - intros H x [<-|Hx].
    + right. rewrite Forall_forall in Hall. apply Hall. apply (last_opt_in (b :: t)). exact H.
    + apply IH; assumption.
Qed.

(* The figure of security s on day d:
   (1) if counted rows of s settle on d: the greatest cost base after any of them;
   (2) else, if s has earlier counted rows: the cost base after the latest of
       them (no earlier row has a later day, and it is the last one in list order);
   (3) else the opening cost base (before the first counted row of s; 0 if none). *)
Theorem spec_cost_meaning ds d s :
  chronological ds ->
  let rows := rows_of ds s in
  let today := filter (fun c => cd_day c =? d) rows in
  let earlier := filter (fun c => cd_day c <? d) rows in
  (today <> [] ->
     (exists c, In c today /\ spec_cost ds d s = post_of c) /\
     (forall c, In c today -> (post_of c <= spec_cost ds d s)%Qc)) /\
  (today = [] -> earlier <> [] ->
     exists c, In c earlier /\ spec_cost ds d s = post_of c /\
               last_opt earlier = Some c /\ forall c', In c' earlier -> cd_day c' <= cd_day c) /\
  (today = [] -> earlier = [] ->
     spec_cost ds d s = match rows with c :: _ => pre_of c | [] => 0%Qc end).
Proof.
  intros Hch rows today earlier. unfold spec_cost. fold rows. fold today earlier.
  split; [|split].
  - intros Hne. destruct (qmax_list (map post_of today)) as [m|] eqn:E.
    + destruct (qmax_list_spec _ _ E) as [Hin Hall]. split.
      * apply in_map_iff in Hin. destruct Hin as [c [Ec Hc]]. exists c. auto.
      * intros c Hc. rewrite Forall_forall in Hall. apply Hall. apply in_map. exact Hc.
    + apply qmax_map_none in E. contradiction.
  - intros Ht Hne. rewrite Ht. cbn [map qmax_list].
    destruct (last_opt earlier) as [c|] eqn:E; [|apply last_opt_none in E; contradiction].
    exists c. split; [apply last_opt_in; exact E|]. split; [reflexivity|]. split; [reflexivity|].
    intros c' Hc'.
    assert (Hs : StronglySorted (fun a b => cd_day a <= cd_day b) earlier)
      by (apply StronglySorted_filter; apply Hch).
    destruct (last_opt_sorted_max _ earlier c Hs E c' Hc') as [->|H]; [lia|exact H].
  - intros Ht He. rewrite Ht, He. reflexivity.
Qed.

Lemma sorted_N_le_nodup_lt l : StronglySorted N.le l -> NoDup l -> StronglySorted N.lt l.
Proof.
  induction 1 as [|a r Hs IH Hall]; intros Hn; [constructor|].
  inversion Hn as [|? ? Hnin Hn']; subst. constructor; [apply IH; exact Hn'|].
  rewrite Forall_forall in *. intros x Hx. specialize (Hall x Hx).
  assert (x <> a) by (intros ->; contradiction). lia.
Qed.

(* the dated rows: the days on which a counted row settles, ascending *)
Theorem spec_days_meaning ds :
  StronglySorted Z.lt (spec_days ds) /\
  forall d, In d (spec_days ds) <-> exists c, In c ds /\ counted c = true /\ cd_day c = d.
Proof.
  unfold spec_days. split.
  - apply sorted_le_nodup_lt; [apply zsort_sorted|].
    eapply Permutation_NoDup; [apply Permutation_sym, zsort_perm|apply zdedup_nodup].
  - intros d. rewrite zsort_in, zdedup_in, in_map_iff. split.
    + intros [c [Hd Hin]]. apply filter_In in Hin. exists c. tauto.
    + intros [c [Hin [Hc Hd]]]. exists c. split; [exact Hd|]. apply filter_In. auto.
Qed.

(* the security columns: the securities with a counted row, ascending *)
Theorem spec_secs_meaning ds :
  StronglySorted N.lt (spec_secs ds) /\
  forall s, In s (spec_secs ds) <-> exists c, In c ds /\ counted c = true /\ cd_sec c = s.
Proof.
  unfold spec_secs. split.
  - apply sorted_N_le_nodup_lt; [apply nsort_sorted|].
    eapply Permutation_NoDup; [apply Permutation_sym, nsort_perm|apply ndedup_nodup].
  - intros s. rewrite nsort_in, ndedup_in, in_map_iff. split.
    + intros [c [Hs Hin]]. apply filter_In in Hin. exists c. tauto.
    + intros [c [Hin [Hc Hs]]]. exists c. split; [exact Hs|]. apply filter_In. auto.
Qed.

(* ---- corollaries in the words of the property ---- *)
Corollary costs_daily ds t :
  Forall valid_delta ds -> Forall faithful_delta ds -> chronological ds -> costs exact ds = Ok t ->
  ct_secs t = spec_secs ds /\
  ct_total t = map (fun d => (d, spec_total ds d, map (spec_cost ds d) (spec_secs ds))) (spec_days ds).
Proof.
  intros Hv Hf Hch E. destruct (costs_refines_spec ds Hv Hf Hch) as [t' [E' [H1 [H2 _]]]].
  rewrite E in E'. inversion E'; subst t'. split; [exact H1|exact H2].
Qed.

Corollary costs_total_is_sum ds t :
  Forall valid_delta ds -> Forall faithful_delta ds -> chronological ds -> costs exact ds = Ok t ->
  Forall (fun r : trow => snd (fst r) = qsum (snd r)) (ct_total t).
Proof.
  intros Hv Hf Hch E. destruct (costs_daily ds t Hv Hf Hch E) as [_ H]. rewrite H.
  apply Forall_forall. intros r Hr. apply in_map_iff in Hr. destruct Hr as [d [<- _]]. reflexivity.
Qed.

Corollary costs_yearly_is_argmax ds t :
  Forall valid_delta ds -> Forall faithful_delta ds -> chronological ds -> costs exact ds = Ok t ->
  yearly_ok ds (ct_yearly t).
Proof.
  intros Hv Hf Hch E. destruct (costs_refines_spec ds Hv Hf Hch) as [t' [E' [_ [_ [_ H]]]]].
  rewrite E in E'. inversion E'; subst t'. exact H.
Qed.

Corollary costs_others_ignored ds t :
  Forall valid_delta ds -> Forall faithful_delta ds -> chronological ds -> costs exact ds = Ok t ->
  ct_notes t = map note_of (filter (fun d => negb (counted d)) ds).
Proof.
  intros Hv Hf Hch E. destruct (costs_refines_spec ds Hv Hf Hch) as [t' [E' [_ [_ [H _]]]]].
  rewrite E in E'. inversion E'; subst t'. exact H.
Qed.

Corollary costs_no_panic ds :
  Forall valid_delta ds -> Forall faithful_delta ds -> chronological ds -> is_ok (costs exact ds) = true.
Proof.
  intros Hv Hf Hch. destruct (costs_refines_spec ds Hv Hf Hch) as [t [E _]]. rewrite E. reflexivity.
Qed.

(* ---- the code before the carry-forward fix ---- *)
Definition qz (z : Z) : Qc := Qcfrac z 1.
Definition mkd (sec : N) (day : Z) (pre post : Z) : cdelta :=
  {| cd_sec := sec; cd_day := day; cd_af := default_id; cd_dflt := true;
     cd_pre := Some (qz pre); cd_post := Some (qz post) |}.
(* AAA bought (cost 100) and fully sold settling 2022-03-03; BBB bought (cost 5) settling 2022-03-04 *)
Definition carry_witness : list cdelta :=
  [mkd 0 738217 0 100; mkd 0 738217 100 0; mkd 1 738218 0 5].

Lemma carry_witness_pre :
  Forall valid_delta carry_witness /\ Forall faithful_delta carry_witness /\ chronological carry_witness.
Proof.
  split; [|split].
  - repeat constructor; eexists; (split; [reflexivity|]); unfold Qcle; vm_compute; discriminate.
  - repeat constructor.
  - intros s. destruct s as [|[p|p|]]; vm_compute; repeat constructor; try discriminate.
Qed.

Definition trow_nums (r : trow) : Z * Z * list Z :=
  (fst (fst r), Qnum (this (snd (fst r))), map (fun q : Qc => Qnum (this q)) (snd r)).

Lemma carry_max_refuted :
  exists ds, Forall valid_delta ds /\ Forall faithful_delta ds /\ chronological ds /\
             exists t, costs_with exact CarryMax nsort zsort ds = Ok t /\ ct_total t <> spec_table ds.
Proof.
  exists carry_witness. destruct carry_witness_pre as [H1 [H2 H3]]. repeat (split; [assumption|]).
  destruct (costs_with exact CarryMax nsort zsort carry_witness) as [t| |] eqn:E.
  - exists t. split; [reflexivity|]. intros H.
    apply (f_equal (fun r => match r with Ok t => map trow_nums (ct_total t) | _ => [] end)) in E.
    cbn beta iota in E. rewrite H in E. vm_compute in E. discriminate E.
  - vm_compute in E. discriminate E.
  - vm_compute in E. discriminate E.
Qed.

(* the same input through the code as it is now: AAA shows 0 on 2022-03-04 *)
Lemma carry_witness_now :
  match costs exact carry_witness with
  | Ok t => map trow_nums (ct_total t) = [(738217, 100, [100; 0]); (738218, 5, [0; 5])]
            /\ map (fun r : yrow => (fst (fst (fst r)), snd (fst (fst r)))) (ct_yearly t) = [(2022, 738217)]
  | _ => False
  end.
Proof. vm_compute. split; reflexivity. Qed.
