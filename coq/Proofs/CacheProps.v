(* The rate cache state machine (C13): invariant over look-ups and runs,
   transparency with respect to the stateless reference look-up of
   Spec/RateRule.v, download accounting. *)
From Coq Require Import List NArith ZArith QArith Qcanon Bool Lia.
From ACB Require Import Base.Outcome Base.QcExtra Base.Fit Base.Arith
     Model.Rates Model.RatesCache Spec.RateRule Proofs.RatesProps.
Import ListNotations.
Local Open Scope Z_scope.

Lemma restrict_some pub a x : restrict pub a x <> None -> x < a /\ pub x <> None.
Proof.
  unfold restrict. destruct (x <? a) eqn:E; [ | congruence ].
  apply Z.ltb_lt in E. auto.
Qed.
Lemma restrict_lt pub a x : x < a -> restrict pub a x = pub x.
Proof. intros H. unfold restrict. replace (x <? a) with true by (symmetry; apply Z.ltb_lt; lia). reflexivity. Qed.

Lemma zmem_In y l : zmem y l = true <-> In y l.
Proof.
  induction l as [| x t IH]; cbn [zmem In]; [split; [discriminate | tauto] | ].
  rewrite orb_true_iff, IH, Z.eqb_eq. tauto.
Qed.

Lemma mhas_true d l : mhas d l = true -> exists v, mget d l = Some v.
Proof. unfold mhas. destruct (mget d l) as [v |]; [eauto | discriminate]. Qed.
Lemma mhas_false d l : mhas d l = false -> mget d l = None.
Proof. unfold mhas. destruct (mget d l); [discriminate | reflexivity]. Qed.

Section Cache.
  (* what the Bank of Canada publishes, ever *)
  Variable truth : calendar.

  (* parsed remote data of a run that sees everything published before [avail] *)
  Definition rem (avail : Z) : Z -> list drate := pubrates (restrict truth avail).
  (* the year a run with (today, avail) writes to the cache *)
  Definition written (y today avail : Z) : list drate := fill (rem avail y) y today.

  (* a run: its today, and the remote = truth published before avail,
     today <= avail <= today + 1 (today's rate may or may not be out yet) *)
  Definition run_ok (today avail : Z) (e : env) : Prop :=
    e_today e = today /\ today <= avail <= today + 1 /\
    forall y, parse_all (e_remote e y) = Ok (rem avail y).

  (* every cached year is what some earlier (or this) run wrote *)
  Definition CacheOk (today avail : Z) (cache : list (Z * list drate)) : Prop :=
    forall y rates, aget y cache = Some rates ->
      exists t' a', t' <= today /\ a' <= avail /\ t' <= a' <= t' + 1 /\ rates = written y t' a'.

  Record Inv (today avail : Z) (s : st) : Prop := {
    inv_cache : CacheOk today avail (s_cache s);
    inv_years : forall y m, aget y (s_years s) = Some m -> aget y (s_cache s) = Some m;
    inv_fresh : forall y, zmem y (s_fresh s) = true -> aget y (s_cache s) = Some (written y today avail);
    inv_dl_nodup : NoDup (s_dl s);
    inv_dl : forall y, In y (s_dl s) -> zmem y (s_fresh s) = true /\ aget y (s_years s) <> None
  }.

  Lemma CacheOk_mono t a t' a' c : t <= t' -> a <= a' -> CacheOk t a c -> CacheOk t' a' c.
  Proof.
    intros Ht Ha H y rates E. destruct (H y rates E) as (t0 & a0 & H1 & H2 & H3 & H4).
    exists t0, a0. repeat split; try lia. exact H4.
  Qed.

  Lemma CacheOk_nil t a : CacheOk t a [].
  Proof. intros y rates E. discriminate. Qed.

  Lemma Inv_new_run t a s : CacheOk t a (s_cache s) -> Inv t a (new_run s).
  Proof.
    intros H. constructor; cbn [new_run s_cache s_years s_fresh s_dl].
    - exact H.
    - intros y m E. discriminate.
    - intros y E. discriminate.
    - constructor.
    - intros y [].
  Qed.

  (* an entry of a cached year is the entry of today's reference map *)
  Lemma cached_agrees today avail t' a' x v :
    today <= avail <= today + 1 -> t' <= today -> a' <= avail -> t' <= a' <= t' + 1 ->
    mget x (written (year_of x) t' a') = Some v ->
    mget x (written (year_of x) today avail) = Some v.
  Proof.
    intros Hta Ht Ha Hta' E. unfold written, rem in *.
    pose proof (year_of_spec x) as Sx. set (y := year_of x) in *.
    rewrite fill_spec in E by apply pubrates_asc.
    rewrite fill_spec by apply pubrates_asc.
    destruct (jan1 y <=? x) eqn:E1; [ | discriminate ]. cbn [andb] in *.
    destruct (x <? cover (pubrates (restrict truth a') y) y t') eqn:E2; [ | discriminate ].
    apply Z.ltb_lt in E2. apply covered_iff in E2; [ | lia ].
    assert (Hxa : x < a').
    { destruct E2 as [L | [x' [Hx' Hp]]]; [lia | ]. apply restrict_some in Hp. lia. }
    assert (Hc : x < cover (pubrates (restrict truth avail) y) y today).
    { apply covered_iff; [lia | ].
      destruct E2 as [L | [x' [Hx' Hp]]]; [left; lia | right].
      exists x'. split; [lia | ]. apply restrict_some in Hp. rewrite restrict_lt by lia. tauto. }
    replace (x <? cover (pubrates (restrict truth avail) y) y today) with true
      by (symmetry; apply Z.ltb_lt; exact Hc).
    inversion E as [Ev]. f_equal. unfold y.
    rewrite !pubrates_valz. rewrite !restrict_lt by lia. reflexivity.
  Qed.

  (* the rest of get_exact_usd_cad_rate once the year map is at hand *)
  Definition finish (today d : Z) (m : list drate) : sum lerr (option drate) :=
    match mget d m with
    | Some r => if Qceqb r 0%Qc then inr None else inr (Some (d, r))
    | None => if today <=? d then inl LNotYet else inr None
    end.

  Lemma exact_ref_finish today avail d :
    exact_ref (rem avail) today d = finish today d (written (year_of d) today avail).
  Proof. reflexivity. Qed.

  Lemma finish_ext today d m1 m2 : mget d m1 = mget d m2 -> finish today d m1 = finish today d m2.
  Proof. unfold finish. intros ->. reflexivity. Qed.

  (* state after a year map was put into year_rates *)
  Definition ins (y : Z) (rates : list drate) (s : st) : st :=
    {| s_years := (y, rates) :: s_years s; s_fresh := s_fresh s;
       s_cache := s_cache s; s_dl := s_dl s |}.

  Lemma aget_cons_eq {A} y (v : A) l : aget y ((y, v) :: l) = Some v.
  Proof. cbn [aget]. rewrite Z.eqb_refl. reflexivity. Qed.
  Lemma aget_cons_ne {A} y y' (v : A) l : y' <> y -> aget y ((y', v) :: l) = aget y l.
  Proof. intros H. cbn [aget]. replace (y' =? y) with false by (symmetry; apply Z.eqb_neq; exact H). reflexivity. Qed.

  Lemma Inv_ins today avail s y rates :
    Inv today avail s -> aget y (s_cache s) = Some rates -> Inv today avail (ins y rates s).
  Proof.
    intros I Hc. destruct I as [I1 I2 I3 I4 I5].
    constructor; cbn [ins s_cache s_years s_fresh s_dl]; auto.
    - intros y' m E. destruct (Z.eq_dec y y') as [-> | NE].
      + rewrite aget_cons_eq in E. injection E as <-. exact Hc.
      + rewrite aget_cons_ne in E by exact NE. apply I2. exact E.
    - intros y' Hin. destruct (I5 y' Hin) as [F Y]. split; [exact F | ].
      destruct (Z.eq_dec y y') as [-> | NE].
      + rewrite aget_cons_eq. discriminate.
      + rewrite aget_cons_ne by exact NE. exact Y.
  Qed.

  (* download + insertion into year_rates *)
  Lemma download_ins today avail e s y :
    run_ok today avail e -> Inv today avail s -> ~ In y (s_dl s) ->
    exists s1,
      download e s y = Ok (s1, written y today avail) /\
      s_dl s1 = y :: s_dl s /\
      Inv today avail (ins y (written y today avail) s1).
  Proof.
    intros (Ht & Hta & Hrem) I Hnin. destruct I as [I1 I2 I3 I4 I5].
    unfold download. rewrite Hrem. cbn [bind]. rewrite Ht.
    eexists. split; [reflexivity | ]. split; [reflexivity | ].
    fold (written y today avail).
    constructor; cbn [ins s_cache s_years s_fresh s_dl].
    - intros y' rates E. destruct (Z.eq_dec y y') as [-> | NE].
      + rewrite aget_cons_eq in E. injection E as <-.
        exists today, avail. repeat split; try lia.
      + rewrite aget_cons_ne in E by exact NE. apply I1 in E. exact E.
    - intros y' m E. destruct (Z.eq_dec y y') as [-> | NE].
      + rewrite aget_cons_eq in E. rewrite aget_cons_eq. exact E.
      + rewrite aget_cons_ne in E by exact NE. rewrite aget_cons_ne by exact NE. apply I2. exact E.
    - intros y' F. destruct (Z.eq_dec y y') as [-> | NE].
      + rewrite aget_cons_eq. reflexivity.
      + rewrite aget_cons_ne by exact NE. apply I3.
        cbn [zmem] in F. apply orb_true_iff in F. destruct F as [F | F]; [ | exact F ].
        apply Z.eqb_eq in F. contradiction.
    - constructor; assumption.
    - intros y' [-> | Hin].
      + split; [cbn [zmem]; rewrite Z.eqb_refl; reflexivity | rewrite aget_cons_eq; discriminate].
      + destruct (I5 y' Hin) as [F Y]. split.
        * cbn [zmem]. rewrite F. apply orb_true_r.
        * destruct (Z.eq_dec y y') as [-> | NE];
            [rewrite aget_cons_eq; discriminate | rewrite aget_cons_ne by exact NE; exact Y].
  Qed.

  (* fetch + insertion: the year map handed to the look-up agrees with the
     reference map on the requested date *)
  Lemma fetch_ins today avail e s d :
    run_ok today avail e -> Inv today avail s -> ~ In (year_of d) (s_dl s) ->
    exists s1 rates,
      fetch e s d = Ok (s1, inr rates) /\
      mget d rates = mget d (written (year_of d) today avail) /\
      Inv today avail (ins (year_of d) rates s1) /\
      (s_dl s1 = s_dl s \/ s_dl s1 = year_of d :: s_dl s).
  Proof.
    intros R I Hnin. set (y := year_of d) in *.
    destruct (download_ins today avail e s y R I Hnin) as (sd & Ed & Edl & Id).
    assert (Hdl : exists s1 rates,
               ('(s1, rates) <- download e s y ;; Ok (s1, inr rates)) = Ok (s1, @inr lerr _ rates) /\
               mget d rates = mget d (written y today avail) /\
               Inv today avail (ins y rates s1) /\
               (s_dl s1 = s_dl s \/ s_dl s1 = y :: s_dl s)).
    { exists sd, (written y today avail). rewrite Ed. cbn [bind]. auto. }
    unfold fetch. fold y.
    destruct (e_force e); [exact Hdl | ].
    pose proof I as [I1 I2 I3 I4 I5].
    destruct (aget y (s_cache s)) as [rates |] eqn:Ec.
    - destruct (zmem y (s_fresh s)) eqn:Ef.
      + exists s, rates. split; [reflexivity | ].
        rewrite (I3 y Ef) in Ec. inversion Ec. subst rates.
        split; [reflexivity | ]. split; [ | left; reflexivity ].
        apply Inv_ins; [exact I | ]. apply I3. exact Ef.
      + destruct (mhas d rates) eqn:Eh; [ | exact Hdl ].
        exists s, rates. split; [reflexivity | ].
        split; [ | split; [apply Inv_ins; assumption | left; reflexivity] ].
        destruct (mhas_true _ _ Eh) as [v Ev]. rewrite Ev. symmetry.
        destruct (I1 y rates Ec) as (t' & a' & H1 & H2 & H3 & H4). subst rates.
        destruct R as (_ & Hta & _).
        unfold y in *. eapply cached_agrees; eauto.
    - destruct (zmem y (s_fresh s)) eqn:Ef; [ | exact Hdl ].
      rewrite (I3 y Ef) in Ec. discriminate.
  Qed.

  (* one get_exact_usd_cad_rate of the fixed code *)
  Lemma exact_step today avail e s d :
    run_ok today avail e -> Inv today avail s ->
    exists s',
      exact true e s d = Ok (s', exact_ref (rem avail) today d) /\
      Inv today avail s' /\
      (s_dl s' = s_dl s \/ s_dl s' = year_of d :: s_dl s).
  Proof.
    intros R I. pose proof R as (Ht & Hta & _). pose proof I as [I1 I2 I3 I4 I5].
    rewrite exact_ref_finish. unfold exact. set (y := year_of d).
    assert (Hload : ~ In y (s_dl s) ->
      exists s',
        ('(s1, r) <- ('(s1, r) <- fetch e s d ;;
                      match r with
                      | inl err => Ok (s1, inl err)
                      | inr rates =>
                          Ok ({| s_years := (y, rates) :: s_years s1; s_fresh := s_fresh s1;
                                 s_cache := s_cache s1; s_dl := s_dl s1 |}, inr rates)
                      end) ;;
         match r with
         | inl err => Ok (s1, inl err)
         | inr m =>
             match mget d m with
             | Some r0 => if Qceqb r0 0%Qc then Ok (s1, inr None) else Ok (s1, inr (Some (d, r0)))
             | None => if e_today e <=? d then Ok (s1, inl LNotYet) else Ok (s1, inr None)
             end
         end) = Ok (s', finish today d (written y today avail)) /\
        Inv today avail s' /\ (s_dl s' = s_dl s \/ s_dl s' = y :: s_dl s)).
    { intros Hnin.
      destruct (fetch_ins today avail e s d R I Hnin) as (s1 & rates & Ef & Em & Ii & Edl).
      rewrite Ef. cbn [bind]. fold y in Em, Ii, Edl.
      exists (ins y rates s1). split; [ | split; [exact Ii | exact Edl] ].
      unfold finish. rewrite <- Em. rewrite Ht. unfold ins.
      destruct (mget d rates) as [r0 |]; [destruct (Qceqb r0 0%Qc); reflexivity | ].
      destruct (today <=? d); reflexivity. }
    destruct (aget y (s_years s)) as [m |] eqn:Ey.
    - destruct (zmem y (s_fresh s)) eqn:Ef; cbn [negb andb].
      + (* downloaded by this process: the map is today's reference map *)
        exists s. split; [ | split; [exact I | left; reflexivity] ].
        cbn [bind]. pose proof (I2 y m Ey) as Ec. rewrite (I3 y Ef) in Ec. inversion Ec. subst m.
        unfold finish. rewrite Ht.
        destruct (mget d (written y today avail)) as [r0 |]; [destruct (Qceqb r0 0%Qc); reflexivity | ].
        destruct (today <=? d); reflexivity.
      + destruct (mhas d m) eqn:Eh; cbn [negb].
        * (* taken from the cache and it has the date *)
          exists s. split; [ | split; [exact I | left; reflexivity] ].
          cbn [bind].
          assert (Em : mget d m = mget d (written y today avail)).
          { destruct (mhas_true _ _ Eh) as [v Ev]. rewrite Ev. symmetry.
            destruct (I1 y m (I2 y m Ey)) as (t' & a' & H1 & H2 & H3 & H4). subst m.
            unfold y in *. eapply cached_agrees; eauto. }
          unfold finish. rewrite <- Em. rewrite Ht.
          destruct (mget d m) as [r0 |]; [destruct (Qceqb r0 0%Qc); reflexivity | ].
          destruct (today <=? d); reflexivity.
        * (* re-validation *)
          apply Hload. intros Hin. destruct (I5 y Hin) as [F _]. congruence.
    - apply Hload. intros Hin. destruct (I5 y Hin) as [_ Y]. contradiction.
  Qed.

  Lemma lookback_step today avail e : forall n s d,
    run_ok today avail e -> Inv today avail s ->
    exists s',
      lookback true n e s d = Ok (s', lookback_ref (rem avail) today n d) /\ Inv today avail s'.
  Proof.
    induction n as [| k IH]; intros s d R I; cbn [lookback lookback_ref].
    - exists s. auto.
    - destruct (exact_step today avail e s (d - 1) R I) as (s1 & E & I1 & _).
      rewrite E. cbn [bind].
      destruct (exact_ref (rem avail) today (d - 1)) as [err | [x |]].
      + exists s1. auto.
      + exists s1. auto.
      + apply IH; assumption.
  Qed.

  Lemma effective_step today avail e s d :
    run_ok today avail e -> Inv today avail s ->
    exists s',
      effective true e s d = Ok (s', effective_ref (rem avail) today d) /\ Inv today avail s'.
  Proof.
    intros R I. unfold effective, effective_ref.
    destruct (exact_step today avail e s d R I) as (s1 & E & I1 & _).
    rewrite E. cbn [bind].
    destruct (exact_ref (rem avail) today d) as [err | [x |]].
    - exists s1. auto.
    - exists s1. auto.
    - apply lookback_step; assumption.
  Qed.

  Lemma lookups_step today avail e : forall ds s,
    run_ok today avail e -> Inv today avail s ->
    exists s',
      lookups true e s ds = Ok (s', map (effective_ref (rem avail) today) ds) /\ Inv today avail s'.
  Proof.
    induction ds as [| d t IH]; intros s R I; cbn [lookups map].
    - exists s. auto.
    - destruct (effective_step today avail e s d R I) as (s1 & E & I1).
      rewrite E. cbn [bind].
      destruct (IH s1 R I1) as (s2 & E2 & I2). rewrite E2. cbn [bind].
      exists s2. auto.
  Qed.

  (* ---- histories ---- *)
  (* runs on successive days: today and the publication horizon never go back *)
  Inductive runs_ok : Z -> Z -> list (env * list Z) -> list (Z * Z) -> Prop :=
  | ro_nil t a : runs_ok t a [] []
  | ro_cons t a e ds rest t' a' ps :
      t <= t' -> a <= a' -> run_ok t' a' e -> runs_ok t' a' rest ps ->
      runs_ok t a ((e, ds) :: rest) ((t', a') :: ps).

  (* the answers a loader without any cache would give, run by run *)
  Fixpoint ref_answers (runs : list (env * list Z)) (ps : list (Z * Z)) : list (list (sum lerr drate)) :=
    match runs, ps with
    | (e, ds) :: rest, (t, a) :: ps' => map (effective_ref (rem a) t) ds :: ref_answers rest ps'
    | _, _ => []
    end.

  Lemma history_transparent : forall runs ps t a s,
    runs_ok t a runs ps -> CacheOk t a (s_cache s) ->
    exists s' outs,
      history true s runs = Ok (s', outs) /\
      map fst outs = ref_answers runs ps /\
      Forall (fun o => NoDup (snd o)) outs.
  Proof.
    induction runs as [| [e ds] rest IH]; intros ps t a s H C; inversion H; subst; cbn [history ref_answers].
    - exists s, []. repeat split; constructor.
    - match goal with
      | H1 : run_ok ?t' ?a' e, H2 : runs_ok ?t' ?a' rest ?ps' |- _ =>
          rename H1 into R; rename H2 into Hrest
      end.
      assert (C' : CacheOk t' a' (s_cache s)) by (eapply CacheOk_mono; [ | | exact C]; lia).
      destruct (lookups_step t' a' e ds (new_run s) R (Inv_new_run _ _ _ C')) as (s1 & E1 & I1).
      rewrite E1. cbn [bind].
      destruct (IH ps0 t' a' s1 Hrest (inv_cache _ _ _ I1)) as (s2 & outs & E2 & M & F).
      rewrite E2. cbn [bind].
      exists s2, ((map (effective_ref (rem a') t') ds, s_dl s1) :: outs).
      split; [reflexivity | ]. split.
      + cbn [map fst]. rewrite M. reflexivity.
      + constructor; [exact (inv_dl_nodup _ _ _ I1) | exact F].
  Qed.

  (* ---- no download when the cached year covers the date ---- *)
  Definition cache_has (s : st) (x : Z) : Prop :=
    exists rates, aget (year_of x) (s_cache s) = Some rates /\ mhas x rates = true.

  Lemma exact_covered today avail e s d s' r :
    Inv today avail s -> e_force e = false -> cache_has s d ->
    exact true e s d = Ok (s', r) ->
    s_dl s' = s_dl s /\ s_cache s' = s_cache s.
  Proof.
    intros I Hf (rates & Ec & Eh) E. pose proof I as [I1 I2 I3 I4 I5].
    unfold exact in E. set (y := year_of d) in *.
    assert (Hload : forall s1 r1,
      ('(s1, r) <- fetch e s d ;;
       match r with
       | inl err => Ok (s1, inl err)
       | inr rates =>
           Ok ({| s_years := (y, rates) :: s_years s1; s_fresh := s_fresh s1;
                  s_cache := s_cache s1; s_dl := s_dl s1 |}, inr rates)
       end) = Ok (s1, r1) -> s_dl s1 = s_dl s /\ s_cache s1 = s_cache s).
    { intros s1 r1. unfold fetch. fold y. rewrite Hf, Ec, Eh.
      destruct (zmem y (s_fresh s)); cbn [bind]; intros X; inversion X; subst; cbn; auto. }
    destruct (aget y (s_years s)) as [m |] eqn:Ey.
    - pose proof (I2 y m Ey) as Ec'. rewrite Ec in Ec'. inversion Ec'. subst m.
      rewrite Eh in E. cbn [negb] in E. rewrite andb_false_r in E. cbn [bind] in E.
      destruct (mget d rates) as [r0 |];
        [destruct (Qceqb r0 0%Qc) | destruct (e_today e <=? d)]; inversion E; subst; auto.
    - destruct (('(s1, r) <- fetch e s d ;;
                 match r with
                 | inl err => Ok (s1, inl err)
                 | inr rates =>
                     Ok ({| s_years := (y, rates) :: s_years s1; s_fresh := s_fresh s1;
                            s_cache := s_cache s1; s_dl := s_dl s1 |}, inr rates)
                 end)) as [[s1 r1] | |] eqn:El; cbn [bind] in E; try discriminate.
      destruct (Hload s1 r1 eq_refl) as [D C].
      destruct r1 as [err | m]; [inversion E; subst; auto | ].
      destruct (mget d m) as [r0 |];
        [destruct (Qceqb r0 0%Qc) | destruct (e_today e <=? d)]; inversion E; subst; auto.
  Qed.

  Lemma cache_has_ext s s' x : s_cache s' = s_cache s -> cache_has s x -> cache_has s' x.
  Proof. unfold cache_has. intros ->. auto. Qed.

  Lemma lookback_covered today avail e : forall n s d s' r,
    run_ok today avail e -> Inv today avail s -> e_force e = false ->
    (forall x, d - Z.of_nat n <= x < d -> cache_has s x) ->
    lookback true n e s d = Ok (s', r) ->
    s_dl s' = s_dl s /\ s_cache s' = s_cache s.
  Proof.
    induction n as [| k IH]; intros s d s' r R I Hf Hc E; cbn [lookback] in E.
    - inversion E; subst. auto.
    - destruct (exact_step today avail e s (d - 1) R I) as (s1 & E1 & I1 & _).
      rewrite E1 in E. cbn [bind] in E.
      destruct (exact_covered today avail e s (d - 1) s1 _ I Hf (Hc (d - 1) ltac:(lia)) E1) as [D C].
      destruct (exact_ref (rem avail) today (d - 1)) as [err | [x |]].
      + inversion E; subst. auto.
      + inversion E; subst. auto.
      + destruct (IH s1 (d - 1) s' r R I1 Hf) as [D' C']; [ | exact E | ].
        * intros x Hx. apply (cache_has_ext s); [exact C | apply Hc; lia].
        * split; congruence.
  Qed.

  Lemma effective_covered today avail e s d s' r :
    run_ok today avail e -> Inv today avail s -> e_force e = false ->
    (forall x, d - 7 <= x <= d -> cache_has s x) ->
    effective true e s d = Ok (s', r) ->
    s_dl s' = s_dl s.
  Proof.
    intros R I Hf Hc E. unfold effective in E.
    destruct (exact_step today avail e s d R I) as (s1 & E1 & I1 & _).
    rewrite E1 in E. cbn [bind] in E.
    destruct (exact_covered today avail e s d s1 _ I Hf (Hc d ltac:(lia)) E1) as [D C].
    destruct (exact_ref (rem avail) today d) as [err | [x |]].
    - inversion E; subst. exact D.
    - inversion E; subst. exact D.
    - destruct (lookback_covered today avail e 7 s1 d s' r R I1 Hf) as [D' _]; [ | exact E | congruence ].
      intros x Hx. apply (cache_has_ext s); [exact C | apply Hc; lia].
  Qed.
End Cache.

(* ---- the code before the fix: a stale answer inside one run ---- *)
Definition ex_truth : calendar :=
  fun x => if ((18995 <=? x) && (x <=? 19011) && negb (Z.modulo (x + 4) 7 =? 6) && negb (Z.modulo (x + 4) 7 =? 0))%Z
           then Some (Qcfrac (12000 + x) 10000) else None.
Definition ex_obs (avail y : Z) : list obs :=
  map (fun dr => {| o_date := Some (fst dr); o_noon := JGood (snd dr); o_daily := JAbsent |})
      (pubrates (restrict ex_truth avail) y).
Definition ex_env (today : Z) : env :=
  {| e_today := today; e_force := false; e_remote := ex_obs today |}.

Lemma parse_all_noon l :
  parse_all (map (fun dr => {| o_date := Some (fst dr); o_noon := JGood (snd dr); o_daily := JAbsent |}) l) = Ok l.
Proof.
  induction l as [| [d r] t IH]; cbn [map parse_all]; [reflexivity | ].
  cbn [parse_obs o_date o_noon fst snd bind]. rewrite IH. reflexivity.
Qed.

Lemma ex_env_run_ok today : run_ok ex_truth today today (ex_env today).
Proof.
  split; [reflexivity | ]. split; [lia | ].
  intros y. unfold ex_env, ex_obs, rem. cbn [e_remote]. apply parse_all_noon.
Qed.

(* first run on 2022-01-11 asks for 5 January; the second run on 2022-01-20
   asks for 5 January and then for 14 January *)
Definition ex_runs : list (env * list Z) :=
  [(ex_env 19003, [18997%Z]); (ex_env 19012, [18997%Z; 19006%Z])].
Definition ex_params : list (Z * Z) := [(19003, 19003); (19012, 19012)]%Z.

Lemma ex_runs_ok : runs_ok ex_truth 0 0 ex_runs ex_params.
Proof.
  unfold ex_runs, ex_params.
  apply ro_cons; [lia | lia | apply ex_env_run_ok | ].
  apply ro_cons; [lia | lia | apply ex_env_run_ok | ].
  apply ro_nil.
Qed.

(* with the code before the fix the second look-up of the second run is
   answered with the rate of 10 January, without a download; without a cache
   it is the rate of 14 January *)
Lemma unfixed_stale :
  exists s outs,
    history false empty_st ex_runs = Ok (s, outs) /\
    map fst outs <> ref_answers ex_truth ex_runs ex_params /\
    nth 1 (map fst outs) [] = [inr (18997%Z, Qcfrac 30997 10000); inr (19002%Z, Qcfrac 31002 10000)] /\
    nth 1 (ref_answers ex_truth ex_runs ex_params) []
      = [inr (18997%Z, Qcfrac 30997 10000); inr (19006%Z, Qcfrac 31006 10000)] /\
    nth 1 (map snd outs) [] = [].
Proof.
  destruct (history false empty_st ex_runs) as [[s outs] | |] eqn:E; [ | vm_compute in E; discriminate.. ].
  exists s, outs. split; [reflexivity | ].
  vm_compute in E. inversion E; subst. clear E.
  split; [vm_compute; intros H; discriminate H | ].
  split; [vm_compute; reflexivity | ]. split; vm_compute; reflexivity.
Qed.

(* the same history with the fixed code *)
Lemma fixed_example :
  exists s outs,
    history true empty_st ex_runs = Ok (s, outs) /\
    map fst outs = ref_answers ex_truth ex_runs ex_params /\
    map snd outs = [[2022%Z]; [2022%Z]].
Proof.
  destruct (history true empty_st ex_runs) as [[s outs] | |] eqn:E; [ | vm_compute in E; discriminate.. ].
  exists s, outs. split; [reflexivity | ].
  vm_compute in E. inversion E; subst. clear E.
  split; vm_compute; reflexivity.
Qed.

(* ---- the application path: rows of a file (load_tx_rates, Tx::try_from) ---- *)
Section Rows.
  Variable ans : Z -> sum lerr drate.     (* the look-up, by trade date *)

  Definition load_one_ref (td : Z) (cur : option currency) (fx : option Qc)
    : sum (sum lerr row_err) (option Qc) :=
    match load_decide cur fx with
    | LKeep => inr fx
    | LErr err => inl (inr err)
    | LLoadUsd => match ans td with inl err => inl (inl err) | inr (_, r) => inr (Some r) end
    end.

  Fixpoint load_rows_ref (rs : list row) : sum rows_err (list row) :=
    match rs with
    | [] => inr []
    | r :: t =>
        match load_one_ref (r_td r) (r_cur r) (r_fx r) with
        | inl err => inl (wrap_err false err)
        | inr fx =>
            match load_one_ref (r_td r) (r_ccur r) (r_cfx r) with
            | inl err => inl (wrap_err true err)
            | inr cfx =>
                match load_rows_ref t with
                | inl err => inl err
                | inr l => inr ({| r_td := r_td r; r_cur := r_cur r; r_fx := fx;
                                   r_ccur := r_ccur r; r_cfx := cfx |} :: l)
                end
            end
        end
    end.

  Definition app_rows_ref (rs : list row) : sum rows_err (list (Qc * Qc)) :=
    match load_rows_ref rs with inl err => inl err | inr l => rows_rates l end.

  (* what the rates of an accepted row are, column pair by column pair *)
  Definition pair_ok (td : Z) (cur : option currency) (fx : option Qc) (used : option Qc) : Prop :=
    match fx with
    | Some q => used = Some q                         (* an explicit rate always wins *)
    | None =>
        match cur with
        | Some USD => exists x r, ans td = inr (x, r) /\ used = Some r   (* looked up by TRADE date *)
        | Some CAD => used = Some 1%Qc
        | Some (OtherCur _) => False                  (* must carry its own rate *)
        | None => used = None
        end
    end.

  Lemma valid_rate_inr cur fx x :
    valid_rate cur fx = inr x ->
    match x with
    | Some (c, q) => cur = Some c /\ (0 < q)%Qc /\ (c = CAD -> q = 1%Qc) /\
                     (fx = Some q \/ (fx = None /\ c = CAD /\ q = 1%Qc))
    | None => cur = None /\ fx = None
    end.
  Proof.
    unfold valid_rate. destruct cur as [c |]; destruct fx as [q |]; intros H; try discriminate.
    - destruct (Qcltb_spec 0%Qc q) as [P | NP]; [ | discriminate ].
      destruct (is_default c && negb (Qceqb q 1%Qc)) eqn:E; [discriminate | ].
      inversion H; subst. split; [reflexivity | ]. split; [exact P | ]. split; [ | left; reflexivity ].
      intros ->. cbn [is_default andb] in E. apply negb_false_iff in E.
      apply Qceqb_true in E. exact E.
    - destruct (is_default c) eqn:E; [ | discriminate ]. inversion H; subst.
      split; [destruct c; try discriminate; reflexivity | ].
      split; [reflexivity | ]. split; [reflexivity | ]. right. auto.
    - inversion H; subst. auto.
  Qed.

  Lemma load_one_ref_inr td cur fx fx' :
    load_one_ref td cur fx = inr fx' ->
    match fx with
    | Some q => fx' = Some q
    | None =>
        match cur with
        | Some USD => exists x r, ans td = inr (x, r) /\ fx' = Some r
        | Some CAD => fx' = None
        | Some (OtherCur _) => False
        | None => fx' = None
        end
    end.
  Proof.
    unfold load_one_ref, load_decide. destruct fx as [q |].
    - intros H. inversion H. reflexivity.
    - destruct cur as [[ | | n] |]; cbn [is_default]; intros H; try (inversion H; reflexivity); try discriminate.
      destruct (ans td) as [err | [x r]]; [discriminate | ]. inversion H. eauto.
  Qed.

  Lemma app_rows_ref_spec : forall rs l,
    app_rows_ref rs = inr l ->
    forall i r tx cm, nth_error rs i = Some r -> nth_error l i = Some (tx, cm) ->
      pair_ok (r_td r) (r_cur r) (r_fx r)
              (match r_cur r, r_fx r with None, None => None | _, _ => Some tx end) /\
      pair_ok (r_td r) (r_ccur r) (r_cfx r)
              (match r_ccur r, r_cfx r with None, None => None | _, _ => Some cm end) /\
      (r_cur r = None -> r_fx r = None -> tx = 1%Qc) /\
      (r_ccur r = None -> r_cfx r = None -> cm = tx) /\
      (0 < tx)%Qc /\ (0 < cm)%Qc.
  Proof.
    unfold app_rows_ref.
    induction rs as [| r0 t IH]; intros l H i r tx cm Hr Hl.
    - destruct i; discriminate.
    - cbn [load_rows_ref] in H.
      destruct (load_one_ref (r_td r0) (r_cur r0) (r_fx r0)) as [e1 | fx'] eqn:E1; [discriminate | ].
      destruct (load_one_ref (r_td r0) (r_ccur r0) (r_cfx r0)) as [e2 | cfx'] eqn:E2; [discriminate | ].
      destruct (load_rows_ref t) as [e3 | lt] eqn:E3; [discriminate | ].
      cbn [rows_rates] in H.
      destruct (row_rates {| r_td := r_td r0; r_cur := r_cur r0; r_fx := fx'; r_ccur := r_ccur r0; r_cfx := cfx' |})
        as [e4 | [tx0 cm0]] eqn:E4; [discriminate | ].
      destruct (rows_rates lt) as [e5 | l5] eqn:E5; [discriminate | ].
      inversion H; subst l. clear H.
      destruct i as [| j].
      + cbn [nth_error] in Hr, Hl. inversion Hr; subst r0. inversion Hl; subst tx0 cm0. clear Hr Hl.
        unfold row_rates in E4. cbn [r_cur r_fx r_ccur r_cfx] in E4.
        destruct (valid_rate (r_cur r) fx') as [e6 | v1] eqn:V1; [discriminate | ].
        destruct (valid_rate (r_ccur r) cfx') as [e7 | v2] eqn:V2; [discriminate | ].
        apply valid_rate_inr in V1. apply valid_rate_inr in V2.
        apply load_one_ref_inr in E1. apply load_one_ref_inr in E2.
        assert (Htx : tx = match v1 with Some (_, q) => q | None => 1%Qc end)
          by (destruct v2 as [[c2 q2] |]; inversion E4; reflexivity).
        assert (Hcm : cm = match v2 with Some (_, q) => q | None => tx end)
          by (destruct v2 as [[c2 q2] |]; inversion E4; subst; reflexivity).
        clear E4.
        assert (P1 : (0 < tx)%Qc).
        { subst tx. destruct v1 as [[c1 q1] |]; [tauto | reflexivity]. }
        assert (P2 : (0 < cm)%Qc).
        { rewrite Hcm. destruct v2 as [[c2 q2] |]; [tauto | exact P1]. }
        repeat split; try assumption.
        * (* transaction currency pair *)
          unfold pair_ok. destruct (r_fx r) as [q |] eqn:Efx.
          -- subst fx'. destruct v1 as [[c1 q1] |].
             ++ destruct V1 as (Hc & _ & _ & [Hq | (Hq & _)]); [ | discriminate ].
                injection Hq as Hq. rewrite Hc, Htx, <- Hq. reflexivity.
             ++ destruct V1 as [_ V1]. discriminate.
          -- destruct (r_cur r) as [[ | | n] |] eqn:Ec.
             ++ subst fx'. destruct v1 as [[c1 q1] |]; [ | destruct V1; discriminate ].
                destruct V1 as (Hc & _ & H1 & _). injection Hc as Hc. rewrite Htx, H1 by (symmetry; exact Hc). reflexivity.
             ++ destruct E1 as (x & r1 & Ea & Ef). subst fx'.
                destruct v1 as [[c1 q1] |]; [ | destruct V1; discriminate ].
                destruct V1 as (_ & _ & _ & [Hq | (Hq & _)]); [ | discriminate ].
                injection Hq as Hq. exists x, r1. rewrite Htx, <- Hq. auto.
             ++ contradiction.
             ++ reflexivity.
        * (* commission currency pair *)
          unfold pair_ok. destruct (r_cfx r) as [q |] eqn:Efx.
          -- subst cfx'. destruct v2 as [[c2 q2] |].
             ++ destruct V2 as (Hc & _ & _ & [Hq | (Hq & _)]); [ | discriminate ].
                injection Hq as Hq. rewrite Hc, Hcm, <- Hq. reflexivity.
             ++ destruct V2 as [_ V2]. discriminate.
          -- destruct (r_ccur r) as [[ | | n] |] eqn:Ec.
             ++ subst cfx'. destruct v2 as [[c2 q2] |]; [ | destruct V2; discriminate ].
                destruct V2 as (Hc & _ & H1 & _). injection Hc as Hc. rewrite Hcm, H1 by (symmetry; exact Hc). reflexivity.
             ++ destruct E2 as (x & r1 & Ea & Ef). subst cfx'.
                destruct v2 as [[c2 q2] |]; [ | destruct V2; discriminate ].
                destruct V2 as (_ & _ & _ & [Hq | (Hq & _)]); [ | discriminate ].
                injection Hq as Hq. exists x, r1. rewrite Hcm, <- Hq. auto.
             ++ contradiction.
             ++ reflexivity.
        * intros Hc Hf. rewrite Hc, Hf in *. subst fx'.
          destruct v1 as [[c1 q1] |]; [destruct V1; discriminate | exact Htx].
        * intros Hc Hf. rewrite Hc, Hf in *. subst cfx'.
          destruct v2 as [[c2 q2] |]; [destruct V2; discriminate | exact Hcm].
      + cbn [nth_error] in Hr, Hl. eapply IH; [ | exact Hr | exact Hl ].
        reflexivity.
  Qed.
End Rows.

Section RowsMachine.
  Variable truth : calendar.

  Lemma load_one_step today avail e s td cur fx :
    run_ok truth today avail e -> Inv truth today avail s ->
    exists s',
      load_one true e s td cur fx
        = Ok (s', load_one_ref (effective_ref (rem truth avail) today) td cur fx) /\
      Inv truth today avail s'.
  Proof.
    intros R I. unfold load_one, load_one_ref.
    destruct (load_decide cur fx).
    - exists s. auto.
    - destruct (effective_step truth today avail e s td R I) as (s1 & E & I1).
      rewrite E. cbn [bind]. exists s1. split; [ | exact I1 ].
      destruct (effective_ref (rem truth avail) today td) as [err | [x r]]; reflexivity.
    - exists s. auto.
  Qed.

  Lemma load_rows_step today avail e : forall rs s,
    run_ok truth today avail e -> Inv truth today avail s ->
    exists s',
      load_rows true e s rs
        = Ok (s', load_rows_ref (effective_ref (rem truth avail) today) rs) /\
      Inv truth today avail s'.
  Proof.
    induction rs as [| r t IH]; intros s R I; cbn [load_rows load_rows_ref].
    - exists s. auto.
    - destruct (load_one_step today avail e s (r_td r) (r_cur r) (r_fx r) R I) as (s1 & E1 & I1).
      rewrite E1. cbn [bind].
      destruct (load_one_ref (effective_ref (rem truth avail) today) (r_td r) (r_cur r) (r_fx r)) as [err | fx'].
      + exists s1. auto.
      + destruct (load_one_step today avail e s1 (r_td r) (r_ccur r) (r_cfx r) R I1) as (s2 & E2 & I2).
        rewrite E2. cbn [bind].
        destruct (load_one_ref (effective_ref (rem truth avail) today) (r_td r) (r_ccur r) (r_cfx r)) as [err | cfx'].
        * exists s2. auto.
        * destruct (IH s2 R I2) as (s3 & E3 & I3). rewrite E3. cbn [bind].
          exists s3. split; [ | exact I3 ].
          destruct (load_rows_ref (effective_ref (rem truth avail) today) t); reflexivity.
  Qed.

  Lemma app_rows_eq today avail e rs :
    run_ok truth today avail e ->
    app_rows true e rs = Ok (app_rows_ref (effective_ref (rem truth avail) today) rs).
  Proof.
    intros R. unfold app_rows, app_rows_ref.
    assert (I0 : Inv truth today avail empty_st) by (apply (Inv_new_run truth today avail empty_st), CacheOk_nil).
    destruct (load_rows_step today avail e rs empty_st R I0) as (s' & E & _).
    rewrite E. cbn [bind].
    destruct (load_rows_ref (effective_ref (rem truth avail) today) rs); reflexivity.
  Qed.
End RowsMachine.

(* ---- C12 on the loader: a fresh loader over an empty cache ---- *)
Lemma obs_in_ext p q : (forall x, p x = q x) -> forall n from, obs_in p from n = obs_in q from n.
Proof.
  intros H. induction n as [| k IH]; intros from; cbn [obs_in]; [reflexivity | ].
  rewrite H, IH. reflexivity.
Qed.

Lemma exact_ref_ext rem1 rem2 today d :
  (forall y, rem1 y = rem2 y) -> exact_ref rem1 today d = exact_ref rem2 today d.
Proof. intros H. unfold exact_ref, refmap. rewrite H. reflexivity. Qed.
Lemma lookback_ref_ext rem1 rem2 today :
  (forall y, rem1 y = rem2 y) -> forall n d, lookback_ref rem1 today n d = lookback_ref rem2 today n d.
Proof.
  intros H. induction n as [| k IH]; intros d; cbn [lookback_ref]; [reflexivity | ].
  rewrite (exact_ref_ext rem1 rem2 today (d - 1) H), IH. reflexivity.
Qed.
Lemma effective_ref_ext rem1 rem2 today d :
  (forall y, rem1 y = rem2 y) -> effective_ref rem1 today d = effective_ref rem2 today d.
Proof.
  intros H. unfold effective_ref.
  rewrite (exact_ref_ext rem1 rem2 today d H), (lookback_ref_ext rem1 rem2 today H). reflexivity.
Qed.

Section Fresh.
  Variable pub : calendar.
  Variable e : env.
  (* what the remote returns parses to the published rates of the year *)
  Hypothesis remote_pub : forall y, parse_all (e_remote e y) = Ok (pubrates pub y).
  (* nothing is published for a day after today *)
  Hypothesis pub_past : forall x, pub x <> None -> x <= e_today e.

  Lemma restrict_today x : restrict pub (e_today e + 1) x = pub x.
  Proof.
    unfold restrict. destruct (x <? e_today e + 1) eqn:E; [reflexivity | ].
    apply Z.ltb_ge in E. destruct (pub x) eqn:P; [ | reflexivity ].
    assert (x <= e_today e) by (apply pub_past; congruence). lia.
  Qed.

  Lemma rem_today y : rem pub (e_today e + 1) y = pubrates pub y.
  Proof. unfold rem, pubrates. apply obs_in_ext. exact restrict_today. Qed.

  Lemma fresh_run_ok : run_ok pub (e_today e) (e_today e + 1) e.
  Proof.
    split; [reflexivity | ]. split; [lia | ]. intros y. rewrite rem_today. apply remote_pub.
  Qed.

  Lemma fresh_Inv : Inv pub (e_today e) (e_today e + 1) empty_st.
  Proof. apply (Inv_new_run pub _ _ empty_st), CacheOk_nil. Qed.

  Lemma fresh_effective d :
    exists s', effective true e empty_st d = Ok (s', effective_ref (pubrates pub) (e_today e) d).
  Proof.
    destruct (effective_step pub _ _ e empty_st d fresh_run_ok fresh_Inv) as (s' & E & _).
    exists s'. rewrite E.
    rewrite (effective_ref_ext (rem pub (e_today e + 1)) (pubrates pub) (e_today e) d rem_today).
    reflexivity.
  Qed.

  Hypothesis pub_nonzero : forall x, pub x <> Some 0%Qc.

  Lemma fresh_lookup_rule d :
    exists s' a,
      effective true e empty_st d = Ok (s', a) /\
      match a with
      | inr (x, r) => rule_ok pub (e_today e) d x r
      | inl LNotYet => rule_not_yet pub (e_today e) d
      | inl LNone7 => rule_none7 pub (e_today e) d
      | inl _ => False
      end.
  Proof.
    destruct (fresh_effective d) as (s' & E).
    exists s', (effective_ref (pubrates pub) (e_today e) d). split; [exact E | ].
    apply effective_ref_rule; assumption.
  Qed.

  Lemma fresh_never d s' x r :
    effective true e empty_st d = Ok (s', inr (x, r)) ->
    x <= d /\ d - 7 <= x /\ r <> 0%Qc /\ pub x = Some r.
  Proof.
    intros E. destruct (fresh_lookup_rule d) as (s1 & a & E1 & Ha).
    rewrite E in E1. inversion E1; subst a s1. destruct Ha as (_ & Hx & Hp & _).
    repeat split; try lia; [ | exact Hp ].
    intros ->. exact (pub_nonzero x Hp).
  Qed.

  Lemma fresh_error_iff d s' a :
    effective true e empty_st d = Ok (s', a) ->
    ((exists err, a = inl err) <-> ~ exists x r, rule_ok pub (e_today e) d x r).
  Proof.
    intros E. destruct (fresh_lookup_rule d) as (s1 & a1 & E1 & Ha).
    rewrite E in E1. inversion E1; subst a1 s1. split.
    - intros [err ->] (x & r & Hok). destruct (rule_ok_not_error _ _ _ _ _ Hok) as [N1 N2].
      destruct err; try contradiction.
    - intros N. destruct a as [err | [x r]]; [eauto | ]. exfalso. apply N. eauto.
  Qed.

  (* rows of a file through the application path *)
  Lemma fresh_rows rs l :
    app_rows true e rs = Ok (inr l) ->
    forall i r tx cm, nth_error rs i = Some r -> nth_error l i = Some (tx, cm) ->
      (r_cur r = Some USD -> r_fx r = None -> exists x, rule_ok pub (e_today e) (r_td r) x tx) /\
      (r_ccur r = Some USD -> r_cfx r = None -> exists x, rule_ok pub (e_today e) (r_td r) x cm) /\
      (forall q, r_fx r = Some q -> tx = q) /\
      (forall q, r_cfx r = Some q -> cm = q) /\
      (r_cur r = Some CAD -> tx = 1%Qc) /\ (r_ccur r = Some CAD -> cm = 1%Qc) /\
      (r_cur r = None -> r_fx r = None -> tx = 1%Qc) /\
      (r_ccur r = None -> r_cfx r = None -> cm = tx).
  Proof.
    intros E i r tx cm Hr Hl.
    rewrite (app_rows_eq pub _ _ e rs fresh_run_ok) in E. inversion E as [E']. clear E.
    destruct (app_rows_ref_spec _ rs l E' i r tx cm Hr Hl) as (P1 & P2 & P3 & P4 & P5 & P6).
    assert (Hrule : forall td x q,
               effective_ref (rem pub (e_today e + 1)) (e_today e) td = inr (x, q) ->
               rule_ok pub (e_today e) td x q).
    { intros td x q Ha. rewrite (effective_ref_ext _ (pubrates pub) _ _ rem_today) in Ha.
      pose proof (effective_ref_rule pub (e_today e) pub_past pub_nonzero td) as Hr'.
      rewrite Ha in Hr'. exact Hr'. }
    unfold pair_ok in P1, P2.
    repeat split.
    - intros Hc Hf. rewrite Hc, Hf in P1. destruct P1 as (x & q & Ha & Hq). inversion Hq; subst q. eauto.
    - intros Hc Hf. rewrite Hc, Hf in P2. destruct P2 as (x & q & Ha & Hq). inversion Hq; subst q. eauto.
    - intros q Hf. rewrite Hf in P1. destruct (r_cur r); inversion P1; reflexivity.
    - intros q Hf. rewrite Hf in P2. destruct (r_ccur r); inversion P2; reflexivity.
    - intros Hc. rewrite Hc in P1. destruct (r_fx r) as [q |] eqn:Hf.
      + inversion P1; subst q.
        (* an explicit rate on a CAD row is only accepted when it is 1 *)
        clear - E' Hr Hl Hc Hf.
        revert i l E' Hr Hl. induction rs as [| r0 t IH]; intros i l E' Hr Hl; [destruct i; discriminate | ].
        unfold app_rows_ref in E'. cbn [load_rows_ref] in E'.
        destruct (load_one_ref _ (r_td r0) (r_cur r0) (r_fx r0)) as [e1 | fx'] eqn:E1; [discriminate | ].
        destruct (load_one_ref _ (r_td r0) (r_ccur r0) (r_cfx r0)) as [e2 | cfx'] eqn:E2; [discriminate | ].
        destruct (load_rows_ref _ t) as [e3 | lt] eqn:E3; [discriminate | ].
        cbn [rows_rates] in E'.
        destruct (row_rates {| r_td := r_td r0; r_cur := r_cur r0; r_fx := fx'; r_ccur := r_ccur r0; r_cfx := cfx' |})
          as [e4 | [tx0 cm0]] eqn:E4; [discriminate | ].
        destruct (rows_rates lt) as [e5 | l5] eqn:E5; [discriminate | ].
        inversion E'; subst l. destruct i as [| j]; cbn [nth_error] in Hr, Hl.
        * inversion Hr; subst r0. inversion Hl; subst tx0 cm0.
          unfold load_one_ref, load_decide in E1. rewrite Hf in E1. inversion E1; subst fx'.
          unfold row_rates in E4. cbn [r_cur r_fx r_ccur r_cfx] in E4. rewrite Hc in E4.
          unfold valid_rate in E4.
          destruct (Qcltb 0%Qc tx); [ | discriminate ].
          cbn [is_default andb] in E4.
          destruct (Qceqb_spec tx 1%Qc) as [Eq | Ne]; [exact Eq | discriminate].
        * eapply (IH j l5); [ | exact Hr | exact Hl ]. unfold app_rows_ref. rewrite E3. exact E5.
      + inversion P1. reflexivity.
    - intros Hc. rewrite Hc in P2. destruct (r_cfx r) as [q |] eqn:Hf.
      + inversion P2; subst q.
        clear - E' Hr Hl Hc Hf.
        revert i l E' Hr Hl. induction rs as [| r0 t IH]; intros i l E' Hr Hl; [destruct i; discriminate | ].
        unfold app_rows_ref in E'. cbn [load_rows_ref] in E'.
        destruct (load_one_ref _ (r_td r0) (r_cur r0) (r_fx r0)) as [e1 | fx'] eqn:E1; [discriminate | ].
        destruct (load_one_ref _ (r_td r0) (r_ccur r0) (r_cfx r0)) as [e2 | cfx'] eqn:E2; [discriminate | ].
        destruct (load_rows_ref _ t) as [e3 | lt] eqn:E3; [discriminate | ].
        cbn [rows_rates] in E'.
        destruct (row_rates {| r_td := r_td r0; r_cur := r_cur r0; r_fx := fx'; r_ccur := r_ccur r0; r_cfx := cfx' |})
          as [e4 | [tx0 cm0]] eqn:E4; [discriminate | ].
        destruct (rows_rates lt) as [e5 | l5] eqn:E5; [discriminate | ].
        inversion E'; subst l. destruct i as [| j]; cbn [nth_error] in Hr, Hl.
        * inversion Hr; subst r0. inversion Hl; subst tx0 cm0.
          unfold load_one_ref, load_decide in E2. rewrite Hf in E2. inversion E2; subst cfx'.
          unfold row_rates in E4. cbn [r_cur r_fx r_ccur r_cfx] in E4. rewrite Hc in E4.
          destruct (valid_rate (r_cur r) fx') as [e6 | v1]; [discriminate | ].
          unfold valid_rate in E4.
          destruct (Qcltb 0%Qc cm); [ | discriminate ].
          cbn [is_default andb] in E4.
          destruct (Qceqb_spec cm 1%Qc) as [Eq | Ne]; [exact Eq | discriminate].
        * eapply (IH j l5); [ | exact Hr | exact Hl ]. unfold app_rows_ref. rewrite E3. exact E5.
      + inversion P2. reflexivity.
    - exact P3.
    - exact P4.
  Qed.
End Fresh.

Lemma c12_example :
  let pub := restrict ex_truth 19012 in
  let e := ex_env 19012 in
  (forall y, parse_all (e_remote e y) = Ok (pubrates pub y)) /\
  (forall x, pub x <> None -> x <= e_today e) /\
  (forall x, pub x <> Some 0%Qc) /\
  (exists s, effective true e empty_st 19007 = Ok (s, inr (19006, Qcfrac 31006 10000))) /\
  (exists s, effective true e empty_st 18994 = Ok (s, inl LNone7)) /\
  (exists s, effective true e empty_st 19012 = Ok (s, inl LNotYet)).
Proof.
  cbv zeta. split; [ | split; [ | split ] ].
  - intros y. apply parse_all_noon.
  - intros x H. apply restrict_some in H. cbn [ex_env e_today]. lia.
  - intros x H. unfold restrict, ex_truth in H.
    destruct (x <? 19012); [ | discriminate ].
    destruct ((18995 <=? x) && (x <=? 19011) && negb ((x + 4) mod 7 =? 6) && negb ((x + 4) mod 7 =? 0)) eqn:E;
      [ | discriminate ].
    apply andb_true_iff in E. destruct E as [E _]. apply andb_true_iff in E. destruct E as [E _].
    apply andb_true_iff in E. destruct E as [E1 E2]. apply Z.leb_le in E1.
    assert (H1 : Qcfrac (12000 + x) 10000 = 0%Qc) by congruence.
    apply Qc_eq_Qeq in H1. unfold Qcfrac, Q2Qc in H1. cbn [this] in H1.
    rewrite !Qred_correct in H1. unfold Qeq in H1. cbn [Qnum Qden] in H1. lia.
  - repeat split; eexists; vm_compute; reflexivity.
Qed.

(* ---- statements of Properties/C13.v ---- *)

Lemma cache_states : forall (truth : calendar) t a,
  CacheOk truth t a [] /\
  forall e s ds s' answers,
    run_ok truth t a e -> Inv truth t a s ->
    lookups true e s ds = Ok (s', answers) ->
    CacheOk truth t a (s_cache s').
Proof.
  intros truth t a. split; [apply CacheOk_nil | ].
  intros e s ds s' answers R I E.
  destruct (lookups_step truth t a e ds s R I) as (s1 & E1 & I1).
  rewrite E in E1. inversion E1; subst. exact (inv_cache _ _ _ _ I1).
Qed.

Lemma no_download_when_covered :
  forall (truth : calendar) today avail e s d s',
    run_ok truth today avail e -> Inv truth today avail s -> e_force e = false ->
    (forall r, cache_has s d -> exact true e s d = Ok (s', r) ->
               s_dl s' = s_dl s /\ s_cache s' = s_cache s) /\
    (forall r, (forall x, d - 7 <= x <= d -> cache_has s x) ->
               effective true e s d = Ok (s', r) -> s_dl s' = s_dl s).
Proof.
  intros truth today avail e s d s' R I F. split.
  - intros r H E. exact (exact_covered truth today avail e s d s' r I F H E).
  - intros r H E. exact (effective_covered truth today avail e s d s' r R I F H E).
Qed.

Lemma unfixed_stale_refuted :
  exists (truth : calendar) runs params,
    runs_ok truth 0 0 runs params /\
    exists s outs,
      history false empty_st runs = Ok (s, outs) /\
      map fst outs <> ref_answers truth runs params.
Proof.
  exists ex_truth, ex_runs, ex_params. split; [exact ex_runs_ok | ].
  destruct unfixed_stale as (s & outs & E & N & _).
  exists s, outs. split; assumption.
Qed.

Lemma c13_example :
  runs_ok ex_truth 0 0 ex_runs ex_params /\
  CacheOk ex_truth 0 0 (s_cache empty_st) /\
  exists s outs,
    history true empty_st ex_runs = Ok (s, outs) /\
    map fst outs = ref_answers ex_truth ex_runs ex_params /\
    map snd outs = [[2022]; [2022]].
Proof.
  split; [exact ex_runs_ok | ]. split; [apply CacheOk_nil | ].
  exact fixed_example.
Qed.
