(* C10: the window conditions of the ledger-loop round trip (C10Roundtrip.v)
   follow from what summary_ranges computes (C10Ranges.v) for the superficial
   losses, and from being outside K_summary_buy_in_window for the other sales
   at a loss. *)
From Coq Require Import List NArith ZArith QArith Qcanon Bool Lia Sorted.
From ACB Require Import Base.Outcome Base.QcExtra Base.Arith Model.Tx Model.Ledger Model.Sfl
     Model.DeltaList Model.App Model.Summary Proofs.Tactics Proofs.C15Full Proofs.C04Sum
     Proofs.RenderProps Proofs.C01Refine Proofs.SortLayout Proofs.SummaryProps
     Proofs.C10Scan Proofs.C10Sim Proofs.C10Roundtrip Proofs.C10Ranges Proofs.C10Cut Proofs.C04Inv.
Import ListNotations.
Local Open Scope Z_scope.

Lemma loss_row_plain d : d_sfl d = None -> loss_row d -> plain_loss_sell d = true.
Proof.
  intros Hn [Hs (g & Hg & Hlt)]. unfold plain_loss_sell, is_sfl_delta. rewrite Hs, Hn, Hg. cbn [negb andb].
  apply Qcltb_true. exact Hlt.
Qed.

Theorem window_conditions c1 dsP dsK dsT (G : list tx) :
  Forall (fun d => d_sd d <= c1) dsP ->
  Forall (fun d => c1 < d_sd d) (dsK ++ dsT) ->
  (forall s, In s (dsK ++ dsT) -> is_sfl_delta s = true -> c1 < d_sd s - window_days) ->
  Forall sfl_neg (dsK ++ dsT) ->
  Forall (fun g => t_sd g <= c1) G ->
  (forall g d, In g G -> In d (dsK ++ dsT) -> plain_loss_sell d = true -> within_after (t_sd g) (d_sd d) = false) ->
  Forall (wcond (rev (map d_tx dsP)) (rev G)) (dsK ++ dsT).
Proof.
  intros HP HKT Hsfl Hneg HG HK1. apply Forall_forall. intros d Hd.
  rewrite Forall_forall in HKT, Hneg. specialize (HKT d Hd). specialize (Hneg d Hd).
  split.
  - intros Hs. pose proof (Hsfl d Hd (sfl_neg_is_sfl d Hneg Hs)) as Hw. split; apply all_before_inert.
    + apply Forall_rev. apply Forall_map. eapply Forall_impl; [|exact HP]. intros x Hx. cbv beta in Hx.
      change (t_sd (d_tx x)) with (d_sd x). lia.
    + apply Forall_rev. eapply Forall_impl; [|exact HG]. intros x Hx. cbv beta in Hx. lia.
  - intros Hn Hl. apply all_before_inert. apply Forall_rev. apply Forall_forall. intros g Hg.
    pose proof (HK1 g d Hg Hd (loss_row_plain d Hn Hl)) as Hw.
    rewrite Forall_forall in HG. specialize (HG g Hg).
    unfold within_after in Hw. apply andb_false_iff in Hw as [Hw|Hw].
    + apply Z.leb_gt in Hw. lia.
    + apply Z.leb_gt in Hw. lia.
Qed.

(* outside K_summary_buy_in_window *)
Lemma K1_of_false A latest annual ds rg gen kept :
  summary_ranges latest ds = Some rg -> make_summary_parts A latest ds annual = Ok (gen, kept) ->
  K1_of A latest annual ds = false ->
  forall g d, In g gen -> is_buy (t_act g) = true -> In d (skipn (first_unsum rg) ds) ->
              plain_loss_sell d = true -> within_after (t_sd g) (d_sd d) = false.
Proof.
  intros Hr Hm HK g d Hg Hb Hd Hp. unfold K1_of in HK. rewrite Hr, Hm in HK.
  destruct (within_after (t_sd g) (d_sd d)) eqn:E; [|reflexivity]. exfalso.
  assert (Ht : existsb (fun b => is_buy (t_act b)
                 && existsb (fun d0 => plain_loss_sell d0 && within_after (t_sd b) (d_sd d0))
                            (skipn (first_unsum rg) ds)) gen = true); [|congruence].
  apply existsb_exists. exists g. split; [exact Hg|]. rewrite Hb. cbn [andb].
  apply existsb_exists. exists d. split; [exact Hd|]. rewrite Hp, E. reflexivity.
Qed.

(* ---------------------------------------------------------------- the latest total of a state *)
Local Open Scope Qc_scope.
Lemma run_injected_lp inj : forall bef st aft ds b st',
  lp st = ps_all st -> run_injected exact bef st inj aft = (ds, b, st', None) -> lp st' = ps_all st'.
Proof.
  induction inj as [|t inj IH]; intros bef st aft ds b st' Hl H; cbn [run_injected] in H.
  - inversion H; subst. exact Hl.
  - destruct (delta_for_tx exact bef t (inj ++ aft) st) as [[d i]| |]; try discriminate.
    destruct (set_latest exact st (t_af t) (d_post d)) as [st1| |] eqn:Es; try discriminate.
    destruct (run_injected exact (t :: bef) st1 inj aft) as [[[ds0 b0] s0] o0] eqn:Er.
    inversion H; subst. destruct (set_latest_all _ _ _ _ Es) as [A1 L1].
    eapply IH; [|exact Er]. rewrite A1, L1. reflexivity.
Qed.
Lemma run_part_lp l1 : forall bef st l2 ds b st',
  lp st = ps_all st -> run_part exact bef st l1 l2 = (ds, b, st', None) -> lp st' = ps_all st'.
Proof.
  induction l1 as [|t l IH]; intros bef st l2 ds b st' Hl H; cbn [run_part] in H.
  - inversion H; subst. exact Hl.
  - destruct (delta_for_tx exact bef t (l ++ l2) st) as [[d inj]| |]; try discriminate.
    destruct (set_latest exact st (t_af t) (d_post d)) as [st1| |] eqn:Es; try discriminate.
    destruct (run_injected exact (t :: bef) st1 inj (l ++ l2)) as [[[dsi b1] st2] o1] eqn:Ei.
    destruct o1; [discriminate|].
    destruct (run_part exact b1 st2 l l2) as [[[ds' b2] st3] o'] eqn:Er. inversion H; subst.
    destruct (set_latest_all _ _ _ _ Es) as [A1 L1].
    eapply IH; [|exact Er]. eapply run_injected_lp; [|exact Ei]. rewrite A1, L1. reflexivity.
Qed.

Lemma app_length_eq {T} (a a' b b' : list T) : a ++ b = a' ++ b' -> length a = length a' -> a = a' /\ b = b'.
Proof.
  revert a'. induction a as [|x a IH]; intros [|y a'] E Hl; try discriminate.
  - split; [reflexivity | exact E].
  - cbn [app] in E. inversion E; subst. cbn [length] in Hl.
    destruct (IH a' H1 ltac:(lia)) as [-> ->]. split; reflexivity.
Qed.

(* ---------------------------------------------------------------- the round trip of the ledger loop, from the ranges
   The full history (rows sorted by date) is run in three parts P, K, T whose
   deltas are the three parts of the delta list that summary_ranges computes
   for the date; [hs] are the holdings at the end of P (one entry per
   affiliate holding shares), each dated at a row of P.  Outside
   K_summary_buy_in_window (no sale at a loss without superficial loss among
   the re-emitted and later rows settles within 30 days after one of those
   dates), when every superficial-loss cell supplied with a row is non-zero
   and every sale sells a positive number of shares:
   (generated purchases ++ re-emitted rows ++ later rows) is accepted, and
   reports the later rows exactly as the full history does. *)
Theorem roundtrip_ranges regof like (hs : list hold_row) latest rg P K T dsP B1 st1 dsK bK stK dsT K' :
  sd_sorted (P ++ K ++ T) ->
  run_part exact [] st0 P (K ++ T) = (dsP, B1, st1, None) ->
  run_part exact B1 st1 K T = (dsK, bK, stK, None) ->
  run_loop exact bK stK T = (dsT, None) ->
  summary_ranges latest (dsP ++ dsK ++ dsT) = Some rg ->
  length dsP = first_unsum rg -> length (dsP ++ dsK) = S (rg_latest rg) ->
  NoDup (map (fun h : hold_row => af_id (fst (fst h))) hs) ->
  Forall (fun h : hold_row => holding_ok (fst (fst h)) (snd (fst h))) hs ->
  ps_all st1 = total_held hs ->
  (forall af, goodaf regof af -> obs st1 af = held_obs hs af (0, if af_reg af then None else Some 0)) ->
  Forall (gooddelta regof) (dsK ++ dsT) ->
  Forall (fun h : hold_row => exists d, In d dsP /\ snd h = d_sd d) hs ->
  (forall h d, In h hs -> In d (dsK ++ dsT) -> plain_loss_sell d = true -> within_after (snd h) (d_sd d) = false) ->
  keep_all dsK = Ok K' ->
  Forall spec_nz (K ++ T) -> Forall sell_pos (K ++ T) ->
  exists dsG dsK',
    run exact None (map (hold_tx like) hs ++ K' ++ T) = (dsG ++ dsK' ++ dsT, None)
    /\ map (fun d => (s_sh (d_post d), s_acb (d_post d))) dsG
       = map (fun h : hold_row => (s_sh (snd (fst h)), s_acb (snd (fst h)))) hs
    /\ map d_post dsK' = map d_post dsK /\ map d_gain dsK' = map d_gain dsK
    /\ Forall (fun d => exists g, In g (map (hold_tx like) hs ++ K') /\ d_sd d = t_sd g) (dsG ++ dsK').
Proof.
  intros Hsort HP HK HT Hrg Hl1 Hl2 Hnd HF Htot Hobs Hgood Hdated HK1 Hk Hnz Hsp.
  (* the whole run *)
  assert (Hrun : run_loop exact [] st0 (P ++ K ++ T) = (dsP ++ dsK ++ dsT, None)).
  { rewrite run_loop_app, HP, run_loop_app, HK, HT. reflexivity. }
  pose proof (run_loop_sorted exact _ _ _ _ _ Hsort Hrun) as Hds.
  pose proof (run_loop_sfl_neg _ _ _ _ _ Hrun) as Hneg.
  destruct (summary_ranges_cut latest _ rg Hds Hrg)
    as (dsP' & dsK' & dsT' & c1 & Eds & El1 & El2 & _ & Hc1 & HcP & HcK & HcT & Hsfl).
  destruct (app_length_eq dsP dsP' _ _ Eds ltac:(lia)) as [<- Eds'].
  assert (HlK : length dsK = length dsK').
  { rewrite !app_length in *. lia. }
  destruct (app_length_eq dsK dsK' _ _ Eds' HlK) as [<- <-].
  pose proof (run_part_bef _ _ _ _ _ _ _ HP) as EB1. rewrite app_nil_r in EB1.
  assert (HKT : Forall (fun d => (c1 < d_sd d)%Z) (dsK ++ dsT)).
  { apply Forall_app. split.
    - eapply Forall_impl; [|exact HcK]. intros x [Hx _]. exact Hx.
    - eapply Forall_impl; [|exact HcT]. intros x Hx. cbv beta in Hx. lia. }
  assert (HG : Forall (fun g => (t_sd g <= c1)%Z) (map (hold_tx like) hs)).
  { apply Forall_map. apply Forall_forall. intros [[af st] date] Hh.
    rewrite Forall_forall in Hdated. destruct (Hdated _ Hh) as (d & Hd & Hdate). cbn [snd] in Hdate.
    cbn [hold_tx summary_buy mk_tx t_sd]. rewrite Forall_forall in HcP. rewrite Hdate. apply HcP. exact Hd. }
  assert (HW : Forall (wcond B1 (rev (map (hold_tx like) hs))) (dsK ++ dsT)).
  { rewrite EB1. apply (window_conditions c1); try assumption.
    - apply Forall_app in Hneg as [_ Hneg]. exact Hneg.
    - intros g d Hg Hd Hp. apply in_map_iff in Hg as ([[af st] date] & <- & Hh).
      cbn [hold_tx summary_buy mk_tx t_sd]. exact (HK1 _ d Hh Hd Hp). }
  assert (Hlp0 : lp st0 = ps_all st0) by reflexivity.
  pose proof (run_part_lp _ _ _ _ _ _ _ Hlp0 HP) as Hlp.
  assert (Hok1 : st_ok st1).
  { eapply run_part_ok; [exact HP|]. split; cbn; [constructor | apply Qcle_refl]. }
  exact (roundtrip_run regof like hs K T B1 st1 dsK bK stK dsT K' Hnd HF Htot Hlp Hobs HK HT Hk HW Hgood Hnz Hsp Hok1).
Qed.
