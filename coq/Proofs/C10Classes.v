(* C10: a fourth class for the statement as worded in the model (benign for
   the property as the check reads it), and concrete histories for the
   non-vacuity examples of Properties/C10.v. *)
From Coq Require Import List NArith ZArith QArith Qcanon Bool Lia Sorted.
From ACB Require Import Base.Outcome Base.QcExtra Base.Arith Model.Tx Model.Ledger Model.Sfl
     Model.DeltaList Model.App Model.Summary Model.SummaryObs Proofs.SummaryProps Proofs.C15Full Proofs.SortLayout
     Proofs.C10Scan Proofs.C10Sim Proofs.C10Roundtrip Proofs.C10Ranges Proofs.C10Cut Proofs.C10Window.
Import ListNotations.
Local Open Scope Z_scope.

(* ---------------------------------------------------------------- K_idle_split_expansion
   A split entered for all affiliates is expanded over the affiliates that
   have rows in the input.  An affiliate that sold everything before the date
   has rows in the full history but none in (summary ++ later rows): the full
   history reports one more expansion row (0 shares before and after) than the
   re-run.  [roundtrip_ok] compares the later rows one by one and fails; the
   oracle of the check ignores such rows (lib/props/c10.py later_rows). *)
Definition grow (ri : N) (sd : Z) (a : action) : tx :=
  {| t_sec := 0; t_td := sd; t_sd := sd; t_act := a; t_af := default_aff; t_glob := true; t_ri := ri |}.
(* default buys 10; the spouse buys 5 and sells them at a gain; -- date --;
   2-for-1 split for all affiliates *)
Definition wit4 : list tx :=
  [wrow 0 737060 (wbuy 10 10) default_aff; wrow 1 737061 (wbuy 5 10) spouse_aff;
   wrow 2 737062 (wsell 5 12) spouse_aff; grow 3 737200 (Split (wq 2 1) (wq 1 1) false)].
Definition wit4_date : Z := 737100.

Lemma wit4_fails :
  history_ok exact wit4 = true /\ roundtrip_ok exact wit4_date false wit4 = false
  /\ roundtrip_ok dec wit4_date false wit4 = false
  /\ K_summary_buy_in_window exact wit4_date false wit4 = false
  /\ K_annual_sell_in_window exact wit4_date false wit4 = false
  /\ K_zero_balance_acb exact wit4_date wit4 = false
  /\ K_idle_split_expansion exact wit4_date wit4 = true
  /\ roundtrip_obs_ok exact wit4_date false wit4 = true
  /\ roundtrip_obs_ok dec wit4_date false wit4 = true.
Proof. vm_compute. repeat split. Qed.

(* ---------------------------------------------------------------- a history with re-emitted rows and later sales at a loss
   buy 10 @ $10 | buy 5 @ $9, sell 3 @ $5 (superficial: adjustment row) | -- date --
   | sell 2 @ $4 (superficial: its window reaches back over the re-emitted rows),
     buy 1 @ $5, sell 1 @ $3 (plain loss) *)
Definition rt_P : list tx := [wrow 0 737000 (wbuy 10 10) default_aff].
Definition rt_K : list tx := [wrow 1 737100 (wbuy 5 9) default_aff; wrow 2 737110 (wsell 3 5) default_aff].
Definition rt_T : list tx := [wrow 3 737125 (wsell 2 4) default_aff; wrow 4 737135 (wbuy 1 5) default_aff;
                              wrow 5 737300 (wsell 1 3) default_aff].
Definition rt_date : Z := 737115.
Definition rt_like := wrow 0 0 (wbuy 1 1) default_aff.
Definition rt_runP := run_part exact [] st0 rt_P (rt_K ++ rt_T).
Definition rt_dsP := fst (fst (fst rt_runP)).
Definition rt_B1 := snd (fst (fst rt_runP)).
Definition rt_st1 := snd (fst rt_runP).
Definition rt_runK := run_part exact rt_B1 rt_st1 rt_K rt_T.
Definition rt_dsK := fst (fst (fst rt_runK)).
Definition rt_bK := snd (fst (fst rt_runK)).
Definition rt_stK := snd (fst rt_runK).
Definition rt_dsT := fst (run_loop exact rt_bK rt_stK rt_T).
Definition rt_K' := match keep_all rt_dsK with Ok k => k | _ => [] end.
Definition rt_hs : list hold_row :=
  [(default_aff, {| s_sh := wq 10 1; s_all := wq 10 1; s_acb := Some (wq 100 1) |}, 737000%Z)].
Definition rt_rg := {| rg_latest := 3; rg_summarizable := Some 0%nat |}.

Lemma rt_hypotheses :
  sd_sorted (rt_P ++ rt_K ++ rt_T)
  /\ run_part exact [] st0 rt_P (rt_K ++ rt_T) = (rt_dsP, rt_B1, rt_st1, None)
  /\ run_part exact rt_B1 rt_st1 rt_K rt_T = (rt_dsK, rt_bK, rt_stK, None)
  /\ run_loop exact rt_bK rt_stK rt_T = (rt_dsT, None)
  /\ summary_ranges rt_date (rt_dsP ++ rt_dsK ++ rt_dsT) = Some rt_rg
  /\ length rt_dsP = first_unsum rt_rg /\ length (rt_dsP ++ rt_dsK) = S (rg_latest rt_rg)
  /\ NoDup (map (fun h : hold_row => af_id (fst (fst h))) rt_hs)
  /\ Forall (fun h : hold_row => holding_ok (fst (fst h)) (snd (fst h))) rt_hs
  /\ ps_all rt_st1 = total_held rt_hs
  /\ (forall af, goodaf (fun _ => false) af ->
                 obs rt_st1 af = held_obs rt_hs af (Q2Qc 0, if af_reg af then None else Some (Q2Qc 0)))
  /\ Forall (gooddelta (fun _ => false)) (rt_dsK ++ rt_dsT)
  /\ Forall (fun h : hold_row => exists d, In d rt_dsP /\ snd h = d_sd d) rt_hs
  /\ (forall h d, In h rt_hs -> In d (rt_dsK ++ rt_dsT) -> plain_loss_sell d = true -> within_after (snd h) (d_sd d) = false)
  /\ keep_all rt_dsK = Ok rt_K'
  /\ Forall spec_nz (rt_K ++ rt_T) /\ Forall sell_pos (rt_K ++ rt_T)
  (* a re-emitted superficial sale, its adjustment as an ordinary row, a later
     superficial sale, a later plain loss *)
  /\ map (fun d => (d_sd d, is_sfl_delta d, plain_loss_sell d)) (rt_dsK ++ rt_dsT)
     = [(737100, false, false); (737110, true, false); (737110, false, false);
        (737125, true, false); (737125, false, false); (737135, false, false); (737300, false, true)]
  /\ map (fun t => act_tag (t_act t)) rt_K' = [0; 1; 3]%N
  (* and the model's own round trip of this history *)
  /\ roundtrip_ok exact rt_date false (rt_P ++ rt_K ++ rt_T) = true
  /\ K_summary_buy_in_window exact rt_date false (rt_P ++ rt_K ++ rt_T) = false.
Proof.
  split. { repeat constructor; cbn; lia. }
  split; [vm_compute; reflexivity|]. split; [vm_compute; reflexivity|]. split; [vm_compute; reflexivity|].
  split; [vm_compute; reflexivity|]. split; [vm_compute; reflexivity|]. split; [vm_compute; reflexivity|].
  split. { repeat constructor. intros []. }
  split. { repeat constructor; vm_compute; reflexivity || discriminate. }
  split; [vm_compute; reflexivity|].
  split. { intros af _. unfold obs, held_obs, find_hold, latest_for. cbn [rt_hs find fst snd].
           change (ps_map rt_st1) with [(default_id, {| s_sh := wq 10 1; s_all := wq 10 1; s_acb := Some (wq 100 1) |})].
           cbn [alookup af_id default_aff].
           destruct (N.eqb default_id (af_id af)) eqn:E; rewrite N.eqb_sym, E; reflexivity. }
  split. { vm_compute. repeat constructor. }
  split. { repeat constructor. eexists. split; [left; reflexivity|]. reflexivity. }
  split. { intros h d [<-|[]] Hd Hp. vm_compute in Hd.
           repeat (destruct Hd as [<-|Hd]; [vm_compute in Hp; try discriminate; vm_compute; reflexivity|]). destruct Hd. }
  split; [vm_compute; reflexivity|].
  split. { repeat constructor. }
  split. { repeat constructor; vm_compute; reflexivity. }
  split; [vm_compute; reflexivity|]. split; [vm_compute; reflexivity|].
  split; vm_compute; reflexivity.
Qed.
