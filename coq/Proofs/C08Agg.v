(* C08, the report: [render_results] is the composition of the per-security
   functions of Model/AppRender.v; the aggregate gains are those of the
   error-free securities; a failed security changes nothing for the others. *)
From Coq Require Import List NArith ZArith QArith Qcanon Bool Lia Sorted Permutation.
From ACB Require Import Model.CsvFields.
From ACB Require Import Base.Outcome Base.QcExtra Base.Arith Model.Tx Model.Ledger Model.Sfl
     Model.DeltaList Model.App Model.Gains Model.Render Model.AppRender
     Proofs.Tactics Proofs.EraseRi Proofs.SortLayout Proofs.Layout Proofs.GainsProps
     Proofs.RenderProps Proofs.C16App Proofs.C08Table.
Import ListNotations.

(* ================================================================ A. the report, security by security *)
Lemma sec_gains_rel_own A x og : sec_gains_rel A x og -> own_gains A (snd x) = Ok og.
Proof.
  unfold sec_gains_rel, own_gains. destruct (snd (snd x)) as [st|].
  - intros ->. reflexivity.
  - intros [g [Hg ->]]. rewrite Hg. reflexivity.
Qed.

Lemma sec_table_rel_own A full cur x y :
  sec_table_rel A full cur x y ->
  fst (fst y) = fst x /\ snd (fst y) = snd (snd x) /\ own_table A full cur (snd x) = Ok (snd y).
Proof.
  unfold sec_table_rel, own_table, footer_gains, own_gains. intros (H1 & H2 & H3).
  split; [exact H1|]. split; [exact H2|].
  destruct (snd (snd x)) as [st|]; cbn [bind gains_or_default].
  - exact H3.
  - destruct H3 as [g [Hg Ht]]. rewrite Hg. cbn [bind gains_or_default]. exact Ht.
Qed.

(* the aggregate table renders [app_aggregate] *)
Lemma render_results_aggregate A full cur secs rep :
  render_results A full cur secs = Ok rep ->
  exists agg, app_aggregate A secs = Ok agg /\ render_aggregate A full agg = Ok (rp_aggregate rep).
Proof.
  unfold render_results, app_aggregate. destruct (first_panic secs); [discriminate|]. intros H.
  bind_as H as gs Eg. bind_as H as agg Ea. bind_as H as tabs Et. bind_as H as at_ Eat.
  inversion H; subst; clear H. cbn [rp_aggregate bind]. exists agg. split; [exact Ea | exact Eat].
Qed.

(* the entry of a security in the report: its own error and its own table *)
Lemma find_entry A full cur (f : N -> outcome) s : forall L tabs,
  Forall2 (sec_table_rel A full cur) (map (fun k => (k, f k)) L) tabs ->
  (In s L -> exists t, find (fun x : N * option stop * table => N.eqb (fst (fst x)) s) tabs
                        = Some (s, snd (f s), t) /\ own_table A full cur (f s) = Ok t) /\
  (~ In s L -> find (fun x : N * option stop * table => N.eqb (fst (fst x)) s) tabs = None).
Proof.
  induction L as [|k L IH]; intros tabs HF; cbn [map] in HF.
  - inversion HF; subst. split; [intros [] | reflexivity].
  - inversion HF as [|x y l tl Hxy Hrest]; subst. apply sec_table_rel_own in Hxy.
    cbn [fst snd] in Hxy. destruct Hxy as (H1 & H2 & H3).
    destruct y as [[k' o] t]. cbn [fst snd] in *. subst k' o.
    cbn [find fst]. destruct (N.eqb k s) eqn:E.
    + apply N.eqb_eq in E. subst k. split.
      * intros _. exists t. split; [reflexivity | exact H3].
      * intros Hn. exfalso. apply Hn. left; reflexivity.
    + apply N.eqb_neq in E. destruct (IH _ Hrest) as [Hin Hout]. split.
      * intros [Hk|Hs]; [congruence | exact (Hin Hs)].
      * intros Hn. apply Hout. intros Hs. apply Hn. right; exact Hs.
Qed.

(* the outcome of security s in the run on [rows] *)
Definition outcome_of (A : arith) (inits : list (N * status)) (rows : list tx) (s : N) : outcome :=
  sec_result_of A (init_for inits s) (txs_of_sec s (sort_txs rows)).

Lemma run_app_outcomes A inits rows :
  run_app A inits rows = Ok (map (fun s => (s, outcome_of A inits rows s)) (securities (sort_txs rows))).
Proof. apply run_app_per_security. Qed.

Theorem report_entry A full cur inits rows rep s :
  render_app A full cur inits rows = Ok rep ->
  (In s (securities (sort_txs rows)) ->
     exists t, table_of s rep = Some (snd (outcome_of A inits rows s), t) /\
               own_table A full cur (outcome_of A inits rows s) = Ok t) /\
  (~ In s (securities (sort_txs rows)) -> table_of s rep = None).
Proof.
  unfold render_app. rewrite run_app_outcomes. cbn [bind]. intros H.
  apply render_results_spec in H as [HF _].
  destruct (find_entry A full cur (outcome_of A inits rows) s _ _ HF) as [Hin Hout].
  unfold table_of. split.
  - intros Hs. destruct (Hin Hs) as [t [Hf Ht]]. exists t. rewrite Hf. cbn [fst snd]. auto.
  - intros Hs. rewrite (Hout Hs). reflexivity.
Qed.

(* ================================================================ B. which securities a run reports *)
Lemma insert_sec_in x s l : In x (insert_sec s l) <-> x = s \/ In x l.
Proof.
  induction l as [|h r IH]; cbn [insert_sec].
  - cbn [In]. intuition.
  - destruct (N.eqb s h) eqn:E.
    + apply N.eqb_eq in E. subst h. cbn [In]. intuition.
    + destruct (N.ltb s h); cbn [In]; [intuition|]. rewrite IH. intuition.
Qed.

Lemma securities_in s l : In s (securities l) <-> In s (map t_sec l).
Proof.
  unfold securities. induction l as [|x l IH]; cbn [fold_right map In]; [reflexivity|].
  rewrite insert_sec_in, IH. intuition.
Qed.

Lemma securities_sort l : securities (sort_txs l) = securities l.
Proof.
  unfold sort_txs. induction l as [|x l IH]; cbn [fold_right]; [reflexivity|].
  rewrite securities_insert_tx, IH. reflexivity.
Qed.

Lemma map_sec_number k l : map t_sec (number_from k l) = map t_sec l.
Proof. revert k. induction l as [|x l IH]; intros k; cbn [number_from map]; [reflexivity|]. rewrite IH. reflexivity. Qed.

Lemma sorted_N_unique l1 : forall l2,
  StronglySorted N.lt l1 -> StronglySorted N.lt l2 -> (forall x, In x l1 <-> In x l2) -> l1 = l2.
Proof.
  induction l1 as [|a l1 IH]; intros l2 H1 H2 Hin.
  - destruct l2 as [|b l2]; [reflexivity|]. exfalso. apply (Hin b). left; reflexivity.
  - destruct l2 as [|b l2]; [exfalso; apply (Hin a); left; reflexivity|].
    apply StronglySorted_inv in H1 as [H1 Ha]. apply StronglySorted_inv in H2 as [H2 Hb].
    rewrite Forall_forall in Ha, Hb.
    assert (a = b).
    { destruct (proj1 (Hin a) (or_introl eq_refl)) as [E|E]; [congruence|].
      destruct (proj2 (Hin b) (or_introl eq_refl)) as [E'|E']; [congruence|].
      specialize (Ha _ E'). specialize (Hb _ E). lia. }
    subst b. f_equal. apply IH; try assumption.
    intros x. split; intros Hx.
    + destruct (proj1 (Hin x) (or_intror Hx)) as [E|E]; [|exact E].
      subst x. specialize (Ha _ Hx). lia.
    + destruct (proj2 (Hin x) (or_intror Hx)) as [E|E]; [|exact E].
      subst x. specialize (Hb _ Hx). lia.
Qed.

(* the securities of a run are those of its rows, ascending: nothing else of
   the input decides the list *)
Lemma securities_of_run l l' :
  (forall s, In s (map t_sec l) <-> In s (map t_sec l')) ->
  securities (sort_txs (number l)) = securities (sort_txs (number l')).
Proof.
  intros H. apply sorted_N_unique; try apply securities_sorted.
  intros s. rewrite !securities_sort, !securities_in. unfold number. rewrite !map_sec_number. apply H.
Qed.

Lemma run_has_security l s : In s (securities (sort_txs (number l))) <-> In s (map t_sec l).
Proof. rewrite securities_sort, securities_in. unfold number. rewrite map_sec_number. reflexivity. Qed.

Lemma interleave_in {T} (a b i : list T) x : interleave a b i -> (In x i <-> In x a \/ In x b).
Proof. induction 1; cbn [In]; intuition. Qed.

Lemma interleave_sym {T} (a b i : list T) : interleave a b i -> interleave b a i.
Proof. induction 1; constructor; assumption. Qed.

(* taking the rows of one security out of an input *)
Definition without (t : N) (l : list tx) : list tx := filter (fun x => negb (N.eqb (t_sec x) t)) l.
Definition only (t : N) (l : list tx) : list tx := filter (fun x => N.eqb (t_sec x) t) l.

Lemma interleave_split t l : interleave (without t l) (only t l) l.
Proof.
  unfold without, only. induction l as [|x l IH]; cbn [filter]; [constructor|].
  destruct (N.eqb (t_sec x) t); cbn [negb]; constructor; exact IH.
Qed.

Lemma only_other t s l : s <> t -> Forall (fun y => N.eqb (t_sec y) s = false) (only t l).
Proof.
  intros Hn. unfold only. apply Forall_forall. intros y Hy. apply filter_In in Hy as [_ Hy].
  apply N.eqb_eq in Hy. apply N.eqb_neq. congruence.
Qed.

Lemma without_secs t l s : In s (map t_sec (without t l)) <-> In s (map t_sec l) /\ s <> t.
Proof.
  unfold without. rewrite !in_map_iff. split.
  - intros [x [Hx Hin]]. apply filter_In in Hin as [Hin Hf]. apply negb_true_iff, N.eqb_neq in Hf.
    split; [exists x; auto | congruence].
  - intros [[x [Hx Hin]] Hn]. exists x. split; [exact Hx|]. apply filter_In. split; [exact Hin|].
    apply negb_true_iff, N.eqb_neq. congruence.
Qed.

(* ================================================================ C. the aggregate counts the error-free securities only *)
(* the entries of security_gains, in the order of the securities *)
Fixpoint collect (l : list (res (option gains))) : res (list gains) :=
  match l with
  | [] => Ok []
  | m :: r => o <- m ;; rest <- collect r ;; Ok (match o with Some g => g :: rest | None => rest end)
  end.

Lemma all_sec_gains_collect A l :
  (gs <- all_sec_gains A l ;; Ok (some_gains gs)) = collect (map (fun x => own_gains A (snd x)) l).
Proof.
  induction l as [|[s [ds o]] l IH]; cbn [all_sec_gains map collect]; [reflexivity|].
  unfold own_gains at 1. cbn [fst snd]. destruct o as [st|].
  - cbn [bind]. rewrite <- IH. destruct (all_sec_gains A l); reflexivity.
  - destruct (security_gains A gains0 (gain_rows ds)) as [g| |]; cbn [bind]; try reflexivity.
    rewrite <- IH. destruct (all_sec_gains A l); reflexivity.
Qed.

Lemma app_aggregate_collect A l :
  app_aggregate A l = (gs <- collect (map (fun x => own_gains A (snd x)) l) ;; aggregate A gains0 gs).
Proof.
  unfold app_aggregate. rewrite <- all_sec_gains_collect. destruct (all_sec_gains A l); reflexivity.
Qed.

Lemma collect_filter {T} (F : T -> res (option gains)) (p : T -> bool) L :
  (forall s, In s L -> p s = false -> F s = Ok None) ->
  collect (map F L) = collect (map F (filter p L)).
Proof.
  induction L as [|s L IH]; intros H; cbn [map filter collect]; [reflexivity|].
  rewrite IH by (intros k Hk; apply H; right; exact Hk).
  destruct (p s) eqn:E; cbn [map collect]; [reflexivity|].
  rewrite (H s (or_introl eq_refl) E). cbn [bind].
  destruct (collect (map F (filter p L))); reflexivity.
Qed.

Lemma filter_strongly_sorted {T} (R : T -> T -> Prop) p l :
  StronglySorted R l -> StronglySorted R (filter p l).
Proof.
  induction 1 as [|a l Hs IH Ha]; cbn [filter]; [constructor|].
  destruct (p a); [|exact IH]. constructor; [exact IH|].
  rewrite Forall_forall in *. intros x Hx. apply filter_In in Hx as [Hx _]. apply Ha, Hx.
Qed.

Definition results (A : arith) (inits : list (N * status)) (l : list tx) : list (N * outcome) :=
  map (fun s => (s, outcome_of A inits (number l) s)) (securities (sort_txs (number l))).

Lemma run_app_results A inits l : run_app A inits (number l) = Ok (results A inits l).
Proof. apply run_app_outcomes. Qed.

Lemma outcome_without A inits i t s :
  s <> t ->
  erase_result (outcome_of A inits (number i) s) = erase_result (outcome_of A inits (number (without t i)) s).
Proof.
  intros Hn. unfold outcome_of.
  apply (independent_of_other_securities A (init_for inits s) s (without t i) (only t i) i).
  - apply interleave_split.
  - apply only_other, Hn.
Qed.

Lemma securities_without i t :
  securities (sort_txs (number (without t i)))
  = filter (fun s => negb (N.eqb s t)) (securities (sort_txs (number i))).
Proof.
  apply sorted_N_unique.
  - apply securities_sorted.
  - apply filter_strongly_sorted, securities_sorted.
  - intros s. rewrite filter_In, !run_has_security, without_secs, negb_true_iff, N.eqb_neq. reflexivity.
Qed.

(* a security whose delta list ended with an error (whatever the error, however
   many rows were computed before it) is not in the aggregate: the aggregate
   of the run is that of the run without the security's rows.  ANY arithmetic:
   the same additions in the same order. *)
Theorem aggregate_ignores_failed A inits i t e :
  snd (outcome_of A inits (number i) t) = Some e ->
  app_aggregate A (results A inits i) = app_aggregate A (results A inits (without t i)).
Proof.
  intros Ht. rewrite !app_aggregate_collect. unfold results. rewrite !map_map. cbn [snd].
  rewrite securities_without.
  rewrite (collect_filter (fun s => own_gains A (outcome_of A inits (number i) s))
                          (fun s => negb (N.eqb s t))).
  - f_equal. f_equal. apply map_ext_in. intros s Hs. apply filter_In in Hs as [_ Hs].
    apply negb_true_iff, N.eqb_neq in Hs.
    rewrite <- own_gains_erase, (outcome_without A inits i t s Hs). apply own_gains_erase.
  - intros s _ Hs. apply negb_false_iff, N.eqb_eq in Hs. subst s.
    unfold own_gains. rewrite Ht. reflexivity.
Qed.

Lemma first_panic_in (l : list sec_result) s ds p :
  In (s, (ds, Some (SPanic p))) l -> exists p', first_panic l = Some p'.
Proof.
  induction l as [|[k [d o]] l IH]; intros H; [contradiction|]. cbn [first_panic].
  destruct H as [H|H].
  - inversion H; subst. eexists; reflexivity.
  - destruct o as [[e|q]|]; try (apply IH, H). eexists; reflexivity.
Qed.

(* a PANIC of the model in one security's ledger is the abort of the process:
   there is no report at all (that inputs do not panic is C05's subject) *)
Theorem panic_aborts_report A full cur secs s ds p :
  In (s, (ds, Some (SPanic p))) secs -> exists p', render_results A full cur secs = Panic p'.
Proof.
  intros H. destruct (first_panic_in _ _ _ _ H) as [p' E]. exists p'.
  unfold render_results. rewrite E. reflexivity.
Qed.

Definition blank_entry (x : option stop * table) : option stop * table := (fst x, blank_memo (snd x)).

Section Local.
  Variable A : arith.
  Variable full : bool.
  Variable cur : tx -> bytes * bytes.
  Hypothesis Hcur : forall t, cur (erase t) = cur t.

  (* the error of security t is t's: every other security's outcome, error
     slot, own totals and table are those of the run without t's rows; so is
     the aggregate; t itself has no totals *)
  Theorem error_is_local inits i t e :
    snd (outcome_of A inits (number i) t) = Some e ->
    (forall s, s <> t ->
       let ri := outcome_of A inits (number i) s in
       let r' := outcome_of A inits (number (without t i)) s in
       erase_result ri = erase_result r' /\
       snd ri = snd r' /\ own_errors ri = own_errors r' /\
       own_gains A ri = own_gains A r' /\ footer_gains A ri = footer_gains A r' /\
       rmap blank_memo (own_table A full cur ri) = rmap blank_memo (own_table A full cur r')) /\
    (forall s, s <> t -> (In s (securities (sort_txs (number i)))
                          <-> In s (securities (sort_txs (number (without t i)))))) /\
    ~ In t (securities (sort_txs (number (without t i)))) /\
    app_aggregate A (results A inits i) = app_aggregate A (results A inits (without t i)) /\
    own_gains A (outcome_of A inits (number i) t) = Ok None /\
    footer_gains A (outcome_of A inits (number i) t) = Ok gains0 /\
    own_errors (outcome_of A inits (number i) t) = [e].
  Proof.
    intros Ht. split; [|split; [|split; [|split; [|split; [|split]]]]].
    - intros s Hs ri r'. pose proof (outcome_without A inits i t s Hs) as He.
      split; [exact He|]. apply (same_outcome_same_entry A full cur Hcur), He.
    - intros s Hs. rewrite !run_has_security, without_secs. tauto.
    - rewrite run_has_security, without_secs. tauto.
    - eapply aggregate_ignores_failed, Ht.
    - unfold own_gains. rewrite Ht. reflexivity.
    - unfold footer_gains, own_gains. rewrite Ht. reflexivity.
    - unfold own_errors. rewrite Ht. reflexivity.
  Qed.

  Theorem report_error_is_local inits i t e rep rep' :
    snd (outcome_of A inits (number i) t) = Some e ->
    render_app A full cur inits (number i) = Ok rep ->
    render_app A full cur inits (number (without t i)) = Ok rep' ->
    (forall s, s <> t -> option_map blank_entry (table_of s rep) = option_map blank_entry (table_of s rep')) /\
    rp_aggregate rep = rp_aggregate rep' /\
    table_of t rep' = None /\
    (In t (map t_sec i) ->
       exists tb, table_of t rep = Some (Some e, tb) /\ tb_labels tb = [LTotal] /\ length (tb_values tb) = 1%nat).
  Proof.
    intros Ht Hr Hr'.
    destruct (error_is_local inits i t e Ht) as (Hoth & Hsecs & Hnot & Hagg & _ & Hfg & _).
    split; [|split; [|split]].
    - intros s Hs. destruct (report_entry _ _ _ _ _ _ s Hr) as [Hin Hout].
      destruct (report_entry _ _ _ _ _ _ s Hr') as [Hin' Hout'].
      destruct (in_dec N.eq_dec s (securities (sort_txs (number i)))) as [Hi|Hi].
      + destruct (Hin Hi) as [tb [E Et]]. destruct (Hin' (proj1 (Hsecs s Hs) Hi)) as [tb' [E' Et']].
        rewrite E, E'. cbn [option_map]. unfold blank_entry. cbn [fst snd].
        destruct (Hoth s Hs) as (_ & Hsn & _ & _ & _ & Htab). rewrite Et, Et' in Htab.
        cbn [Render.map_res] in Htab. assert (Hb : blank_memo tb = blank_memo tb') by congruence. rewrite Hsn, Hb. reflexivity.
      + rewrite (Hout Hi), (Hout' (fun H => Hi (proj2 (Hsecs s Hs) H))). reflexivity.
    - unfold render_app in Hr, Hr'. rewrite run_app_results in Hr, Hr'. cbn [bind] in Hr, Hr'.
      apply render_results_aggregate in Hr as [agg [Ea Er]]. apply render_results_aggregate in Hr' as [agg' [Ea' Er']].
      rewrite Hagg, Ea' in Ea. inversion Ea; subst agg'. rewrite Er' in Er. inversion Er. reflexivity.
    - destruct (report_entry _ _ _ _ _ _ t Hr') as [_ Hout]. apply Hout, Hnot.
    - intros Hin. destruct (report_entry _ _ _ _ _ _ t Hr) as [Hi _].
      destruct (Hi (proj2 (run_has_security i t) Hin)) as [tb [E Et]]. exists tb. rewrite E, Ht.
      split; [reflexivity|]. unfold own_table in Et. rewrite Hfg in Et. cbn [bind] in Et.
      destruct (footer_is_gains _ _ _ _ _ _ Et) as (Hl & _ & _ & total & yv & Hv & _ & Hy).
      change (years_sorted gains0) with (@nil Z) in *. split; [exact Hl|].
      inversion Hy; subst. rewrite Hv. reflexivity.
  Qed.
End Local.
