(* C08, the report: [render_results] is the composition of the per-security
   functions of Model/AppRender.v; the aggregate gains are those of the
   error-free securities; a failed security changes nothing for the others. *)
From Coq Require Import List NArith ZArith QArith Qcanon Bool Lia Sorted Permutation.
From ACB Require Import Model.CsvFields.
From ACB Require Import Base.Outcome Base.QcExtra Base.Arith Model.Tx Model.Ledger Model.Sfl
     Model.DeltaList Model.App Model.Gains Model.Render Model.AppRender
     Proofs.Tactics Proofs.EraseRi Proofs.SortLayout Proofs.Layout Proofs.GainsProps
     Proofs.RenderProps Proofs.C16App Proofs.C08Table.
Import ListNotations.

(* ================================================================ A. the report, security by security *)
Lemma sec_gains_rel_own A x og : sec_gains_rel A x og -> own_gains A (snd x) = Ok og.
Proof.
  unfold sec_gains_rel, own_gains. destruct (snd (snd x)) as [st|].
  - intros ->. reflexivity.
  - intros [g [Hg ->]]. rewrite Hg. reflexivity.
Qed.

Lemma sec_table_rel_own A full cur x y :
  sec_table_rel A full cur x y ->
  fst (fst y) = fst x /\ snd (fst y) = snd (snd x) /\ own_table A full cur (snd x) = Ok (snd y).
Proof.
  unfold sec_table_rel, own_table, footer_gains, own_gains. intros (H1 & H2 & H3).
  split; [exact H1|]. split; [exact H2|].
  destruct (snd (snd x)) as [st|]; cbn [bind gains_or_default].
  - exact H3.
  - destruct H3 as [g [Hg Ht]]. rewrite Hg. cbn [bind gains_or_default]. exact Ht.
Qed.

(* the aggregate table renders [app_aggregate] *)
Lemma render_results_aggregate A full cur secs rep :
  render_results A full cur secs = Ok rep ->
  exists agg, app_aggregate A secs = Ok agg /\ render_aggregate A full agg = Ok (rp_aggregate rep).
Proof.
  unfold render_results, app_aggregate. destruct (first_panic secs); [discriminate|]. intros H.
  bind_as H as gs Eg. bind_as H as agg Ea. bind_as H as tabs Et. bind_as H as at_ Eat.
  inversion H; subst; clear H. cbn [rp_aggregate bind]. exists agg. split; [exact Ea | exact Eat].
Qed.

(* the entry of a security in the report: its own error and its own table *)
Lemma find_entry A full cur (f : N -> outcome) s : forall L tabs,
  Forall2 (sec_table_rel A full cur) (map (fun k => (k, f k)) L) tabs ->
  (In s L -> exists t, find (fun x : N * option stop * table => N.eqb (fst (fst x)) s) tabs
                        = Some (s, snd (f s), t) /\ own_table A full cur (f s) = Ok t) /\
  (~ In s L -> find (fun x : N * option stop * table => N.eqb (fst (fst x)) s) tabs = None).
Proof.
  induction L as [|k L IH]; intros tabs HF; cbn [map] in HF.
  - inversion HF; subst. split; [intros [] | reflexivity].
  - inversion HF as [|x y l tl Hxy Hrest]; subst. apply sec_table_rel_own in Hxy.
    cbn [fst snd] in Hxy. destruct Hxy as (H1 & H2 & H3).
    destruct y as [[k' o] t]. cbn [fst snd] in *. subst k' o.
    cbn [find fst]. destruct (N.eqb k s) eqn:E.
    + apply N.eqb_eq in E. subst k. split.
      * intros _. exists t. split; [reflexivity | exact H3].
      * intros Hn. exfalso. apply Hn. left; reflexivity.
    + apply N.eqb_neq in E. destruct (IH _ Hrest) as [Hin Hout]. split.
      * intros [Hk|Hs]; [congruence | exact (Hin Hs)].
      * intros Hn. apply Hout. intros Hs. apply Hn. right; exact Hs.
Qed.

(* the outcome of security s in the run on [rows] *)
Definition outcome_of (A : arith) (inits : list (N * status)) (rows : list tx) (s : N) : outcome :=
  sec_result_of A (init_for inits s) (txs_of_sec s (sort_txs rows)).

Lemma run_app_outcomes A inits rows :
  run_app A inits rows = Ok (map (fun s => (s, outcome_of A inits rows s)) (securities (sort_txs rows))).
Proof. apply run_app_per_security. Qed.

Theorem report_entry A full cur inits rows rep s :
  render_app A full cur inits rows = Ok rep ->
  (In s (securities (sort_txs rows)) ->
     exists t, table_of s rep = Some (snd (outcome_of A inits rows s), t) /\
               own_table A full cur (outcome_of A inits rows s) = Ok t) /\
  (~ In s (securities (sort_txs rows)) -> table_of s rep = None).
Proof.
  unfold render_app. rewrite run_app_outcomes. cbn [bind]. intros H.
  apply render_results_spec in H as [HF _].
  destruct (find_entry A full cur (outcome_of A inits rows) s _ _ HF) as [Hin Hout].
  unfold table_of. split.
  - intros Hs. destruct (Hin Hs) as [t [Hf Ht]]. exists t. rewrite Hf. cbn [fst snd]. auto.
  - intros Hs. rewrite (Hout Hs). reflexivity.
Qed.

(* ================================================================ B. which securities a run reports *)
Lemma insert_sec_in x s l : In x (insert_sec s l) <-> x = s \/ In x l.
Proof.
  induction l as [|h r IH]; cbn [insert_sec].
  - cbn [In]. intuition.
  - destruct (N.eqb s h) eqn:E.
    + apply N.eqb_eq in E. subst h. cbn [In]. intuition.
    + destruct (N.ltb s h); cbn [In]; [intuition|]. rewrite IH. intuition.
Qed.

Lemma securities_in s l : In s (securities l) <-> In s (map t_sec l).
Proof.
  unfold securities. induction l as [|x l IH]; cbn [fold_right map In]; [reflexivity|].
  rewrite insert_sec_in, IH. intuition.
Qed.

Lemma securities_sort l : securities (sort_txs l) = securities l.
Proof.
  unfold sort_txs. induction l as [|x l IH]; cbn [fold_right]; [reflexivity|].
  rewrite securities_insert_tx, IH. reflexivity.
Qed.

Lemma map_sec_number k l : map t_sec (number_from k l) = map t_sec l.
Proof. revert k. induction l as [|x l IH]; intros k; cbn [number_from map]; [reflexivity|]. rewrite IH. reflexivity. Qed.

Lemma sorted_N_unique l1 : forall l2,
  StronglySorted N.lt l1 -> StronglySorted N.lt l2 -> (forall x, In x l1 <-> In x l2) -> l1 = l2.
Proof.
  induction l1 as [|a l1 IH]; intros l2 H1 H2 Hin.
  - destruct l2 as [|b l2]; [reflexivity|]. exfalso. apply (Hin b). left; reflexivity.
  - destruct l2 as [|b l2]; [exfalso; apply (Hin a); left; reflexivity|].
    apply StronglySorted_inv in H1 as [H1 Ha]. apply StronglySorted_inv in H2 as [H2 Hb].
    rewrite Forall_forall in Ha, Hb.
    assert (a = b).
    { destruct (proj1 (Hin a) (or_introl eq_refl)) as [E|E]; [congruence|].
      destruct (proj2 (Hin b) (or_introl eq_refl)) as [E'|E']; [congruence|].
      specialize (Ha _ E'). specialize (Hb _ E). lia. }
    subst b. f_equal. apply IH; try assumption.
    intros x. split; intros Hx.
    + destruct (proj1 (Hin x) (or_intror Hx)) as [E|E]; [|exact E].
      subst x. specialize (Ha _ Hx). lia.
    + destruct (proj2 (Hin x) (or_intror Hx)) as [E|E]; [|exact E].
      subst x. specialize (Hb _ Hx). lia.
Qed.

(* the securities of a run are those of its rows, ascending: nothing else of
   the input decides the list *)
Lemma securities_of_run l l' :
  (forall s, In s (map t_sec l) <-> In s (map t_sec l')) ->
  securities (sort_txs (number l)) = securities (sort_txs (number l')).
Proof.
  intros H. apply sorted_N_unique; try apply securities_sorted.
  intros s. rewrite !securities_sort, !securities_in. unfold number. rewrite !map_sec_number. apply H.
Qed.

Lemma run_has_security l s : In s (securities (sort_txs (number l))) <-> In s (map t_sec l).
Proof. rewrite securities_sort, securities_in. unfold number. rewrite map_sec_number. reflexivity. Qed.

Lemma interleave_in {T} (a b i : list T) x : interleave a b i -> (In x i <-> In x a \/ In x b).
Proof. induction 1; cbn [In]; intuition. Qed.

Lemma interleave_sym {T} (a b i : list T) : interleave a b i -> interleave b a i.
Proof. induction 1; constructor; assumption. Qed.

(* taking the rows of one security out of an input *)
Definition without (t : N) (l : list tx) : list tx := filter (fun x => negb (N.eqb (t_sec x) t)) l.
Definition only (t : N) (l : list tx) : list tx := filter (fun x => N.eqb (t_sec x) t) l.

Lemma interleave_split t l : interleave (without t l) (only t l) l.
Proof.
  unfold without, only. induction l as [|x l IH]; cbn [filter]; [constructor|].
  destruct (N.eqb (t_sec x) t); cbn [negb]; constructor; exact IH.
Qed.

Lemma only_other t s l : s <> t -> Forall (fun y => N.eqb (t_sec y) s = false) (only t l).
Proof.
  intros Hn. unfold only. apply Forall_forall. intros y Hy. apply filter_In in Hy as [_ Hy].
  apply N.eqb_eq in Hy. apply N.eqb_neq. congruence.
Qed.

Lemma without_secs t l s : In s (map t_sec (without t l)) <-> In s (map t_sec l) /\ s <> t.
Proof.
  unfold without. rewrite !in_map_iff. split.
  - intros [x [Hx Hin]]. apply filter_In in Hin as [Hin Hf]. apply negb_true_iff, N.eqb_neq in Hf.
    split; [exists x; auto | congruence].
  - intros [[x [Hx Hin]] Hn]. exists x. split; [exact Hx|]. apply filter_In. split; [exact Hin|].
    apply negb_true_iff, N.eqb_neq. congruence.
Qed.

(* ================================================================ C. the aggregate counts the error-free securities only *)
(* the entries of security_gains, in the order of the securities *)
Fixpoint collect (l : list (res (option gains))) : res (list gains) :=
  match l with
  | [] => Ok []
  | m :: r => o <- m ;; rest <- collect r ;; Ok (match o with Some g => g :: rest | None => rest end)
  end.

Lemma all_sec_gains_collect A l :
  (gs <- all_sec_gains A l ;; Ok (some_gains gs)) = collect (map (fun x => own_gains A (snd x)) l).
Proof.
  induction l as [|[s [ds o]] l IH]; cbn [all_sec_gains map collect]; [reflexivity|].
  unfold own_gains at 1. cbn [fst snd]. destruct o as [st|].
  - cbn [bind]. rewrite <- IH. destruct (all_sec_gains A l); reflexivity.
  - destruct (security_gains A gains0 (gain_rows ds)) as [g| |]; cbn [bind]; try reflexivity.
    rewrite <- IH. destruct (all_sec_gains A l); reflexivity.
Qed.

Lemma app_aggregate_collect A l :
  app_aggregate A l = (gs <- collect (map (fun x => own_gains A (snd x)) l) ;; aggregate A gains0 gs).
Proof.
  unfold app_aggregate. rewrite <- all_sec_gains_collect. destruct (all_sec_gains A l); reflexivity.
Qed.

Lemma collect_filter {T} (F : T -> res (option gains)) (p : T -> bool) L :
  (forall s, In s L -> p s = false -> F s = Ok None) ->
  collect (map F L) = collect (map F (filter p L)).
Proof.
  induction L as [|s L IH]; intros H; cbn [map filter collect]; [reflexivity|].
  rewrite IH by (intros k Hk; apply H; right; exact Hk).
  destruct (p s) eqn:E; cbn [map collect]; [reflexivity|].
  rewrite (H s (or_introl eq_refl) E). cbn [bind].
  destruct (collect (map F (filter p L))); reflexivity.
Qed.

Lemma filter_strongly_sorted {T} (R : T -> T -> Prop) p l :
  StronglySorted R l -> StronglySorted R (filter p l).
Proof.
  induction 1 as [|a l Hs IH Ha]; cbn [filter]; [constructor|].
  destruct (p a); [|exact IH]. constructor; [exact IH|].
  rewrite Forall_forall in *. intros x Hx. apply filter_In in Hx as [Hx _]. apply Ha, Hx.
Qed.

Definition results (A : arith) (inits : list (N * status)) (l : list tx) : list (N * outcome) :=
  map (fun s => (s, outcome_of A inits (number l) s)) (securities (sort_txs (number l))).

Lemma run_app_results A inits l : run_app A inits (number l) = Ok (results A inits l).
Proof. apply run_app_outcomes. Qed.

Lemma outcome_without A inits i t s :
  s <> t ->
  erase_result (outcome_of A inits (number i) s) = erase_result (outcome_of A inits (number (without t i)) s).
Proof.
  intros Hn. unfold outcome_of.
  apply (independent_of_other_securities A (init_for inits s) s (without t i) (only t i) i).
  - apply interleave_split.
  - apply only_other, Hn.
Qed.

Lemma securities_without i t :
  securities (sort_txs (number (without t i)))
  = filter (fun s => negb (N.eqb s t)) (securities (sort_txs (number i))).
Proof.
  apply sorted_N_unique.
  - apply securities_sorted.
  - apply filter_strongly_sorted, securities_sorted.
  - intros s. rewrite filter_In, !run_has_security, without_secs, negb_true_iff, N.eqb_neq. reflexivity.
Qed.

(* a security whose delta list ended with an error (whatever the error, however
   many rows were computed before it) is not in the aggregate: the aggregate
   of the run is that of the run without the security's rows.  ANY arithmetic:
   the same additions in the same order. *)
Theorem aggregate_ignores_failed A inits i t e :
  snd (outcome_of A inits (number i) t) = Some e ->
  app_aggregate A (results A inits i) = app_aggregate A (results A inits (without t i)).
Proof.
  intros Ht. rewrite !app_aggregate_collect. unfold results. rewrite !map_map. cbn [snd].
  rewrite securities_without.
  rewrite (collect_filter (fun s => own_gains A (outcome_of A inits (number i) s))
                          (fun s => negb (N.eqb s t))).
  - f_equal. f_equal. apply map_ext_in. intros s Hs. apply filter_In in Hs as [_ Hs].
    apply negb_true_iff, N.eqb_neq in Hs.
    rewrite <- own_gains_erase, (outcome_without A inits i t s Hs). apply own_gains_erase.
  - intros s _ Hs. apply negb_false_iff, N.eqb_eq in Hs. subst s.
    unfold own_gains. rewrite Ht. reflexivity.
Qed.

Lemma first_panic_in (l : list sec_result) s ds p :
  In (s, (ds, Some (SPanic p))) l -> exists p', first_panic l = Some p'.
Proof.
  induction l as [|[k [d o]] l IH]; intros H; [contradiction|]. cbn [first_panic].
  destruct H as [H|H].
  - inversion H; subst. eexists; reflexivity.
  - destruct o as [[e|q]|]; try (apply IH, H). eexists; reflexivity.
Qed.

(* a PANIC of the model in one security's ledger is the abort of the process:
   there is no report at all (that inputs do not panic is C05's subject) *)
Theorem panic_aborts_report A full cur secs s ds p :
  In (s, (ds, Some (SPanic p))) secs -> exists p', render_results A full cur secs = Panic p'.
Proof.
  intros H. destruct (first_panic_in _ _ _ _ H) as [p' E]. exists p'.
  unfold render_results. rewrite E. reflexivity.
Qed.

Definition blank_entry (x : option stop * table) : option stop * table := (fst x, blank_memo (snd x)).

Section Local.
  Variable A : arith.
  Variable full : bool.
  Variable cur : tx -> bytes * bytes.
  Hypothesis Hcur : forall t, cur (erase t) = cur t.

  (* the error of security t is t's: every other security's outcome, error
     slot, own totals and table are those of the run without t's rows; so is
     the aggregate; t itself has no totals *)
  Theorem error_is_local inits i t e :
    snd (outcome_of A inits (number i) t) = Some e ->
    (forall s, s <> t ->
       let ri := outcome_of A inits (number i) s in
       let r' := outcome_of A inits (number (without t i)) s in
       erase_result ri = erase_result r' /\
       snd ri = snd r' /\ own_errors ri = own_errors r' /\
       own_gains A ri = own_gains A r' /\ footer_gains A ri = footer_gains A r' /\
       rmap blank_memo (own_table A full cur ri) = rmap blank_memo (own_table A full cur r')) /\
    (forall s, s <> t -> (In s (securities (sort_txs (number i)))
                          <-> In s (securities (sort_txs (number (without t i)))))) /\
    ~ In t (securities (sort_txs (number (without t i)))) /\
    app_aggregate A (results A inits i) = app_aggregate A (results A inits (without t i)) /\
    own_gains A (outcome_of A inits (number i) t) = Ok None /\
    footer_gains A (outcome_of A inits (number i) t) = Ok gains0 /\
    own_errors (outcome_of A inits (number i) t) = [e].
  Proof.
    intros Ht. split; [|split; [|split; [|split; [|split; [|split]]]]].
    - intros s Hs ri r'. pose proof (outcome_without A inits i t s Hs) as He.
      split; [exact He|]. apply (same_outcome_same_entry A full cur Hcur), He.
    - intros s Hs. rewrite !run_has_security, without_secs. tauto.
    - rewrite run_has_security, without_secs. tauto.
    - eapply aggregate_ignores_failed, Ht.
    - unfold own_gains. rewrite Ht. reflexivity.
    - unfold footer_gains, own_gains. rewrite Ht. reflexivity.
    - unfold own_errors. rewrite Ht. reflexivity.
  Qed.

  Theorem report_error_is_local inits i t e rep rep' :
    snd (outcome_of A inits (number i) t) = Some e ->
    render_app A full cur inits (number i) = Ok rep ->
    render_app A full cur inits (number (without t i)) = Ok rep' ->
    (forall s, s <> t -> option_map blank_entry (table_of s rep) = option_map blank_entry (table_of s rep')) /\
    rp_aggregate rep = rp_aggregate rep' /\
    table_of t rep' = None /\
    (In t (map t_sec i) ->
       exists tb, table_of t rep = Some (Some e, tb) /\ tb_labels tb = [LTotal] /\ length (tb_values tb) = 1%nat).
  Proof.
    intros Ht Hr Hr'.
    destruct (error_is_local inits i t e Ht) as (Hoth & Hsecs & Hnot & Hagg & _ & Hfg & _).
    split; [|split; [|split]].
    - intros s Hs. destruct (report_entry _ _ _ _ _ _ s Hr) as [Hin Hout].
      destruct (report_entry _ _ _ _ _ _ s Hr') as [Hin' Hout'].
      destruct (in_dec N.eq_dec s (securities (sort_txs (number i)))) as [Hi|Hi].
      + destruct (Hin Hi) as [tb [E Et]]. destruct (Hin' (proj1 (Hsecs s Hs) Hi)) as [tb' [E' Et']].
        rewrite E, E'. cbn [option_map]. unfold blank_entry. cbn [fst snd].
        destruct (Hoth s Hs) as (_ & Hsn & _ & _ & _ & Htab). rewrite Et, Et' in Htab.
        cbn [Render.map_res] in Htab. assert (Hb : blank_memo tb = blank_memo tb') by congruence. rewrite Hsn, Hb. reflexivity.
      + rewrite (Hout Hi), (Hout' (fun H => Hi (proj2 (Hsecs s Hs) H))). reflexivity.
    - unfold render_app in Hr, Hr'. rewrite run_app_results in Hr, Hr'. cbn [bind] in Hr, Hr'.
      apply render_results_aggregate in Hr as [agg [Ea Er]]. apply render_results_aggregate in Hr' as [agg' [Ea' Er']].
      rewrite Hagg, Ea' in Ea. inversion Ea; subst agg'. rewrite Er' in Er. inversion Er. reflexivity.
    - destruct (report_entry _ _ _ _ _ _ t Hr') as [_ Hout]. apply Hout, Hnot.
    - intros Hin. destruct (report_entry _ _ _ _ _ _ t Hr) as [Hi _].
      destruct (Hi (proj2 (run_has_security i t) Hin)) as [tb [E Et]]. exists tb. rewrite E, Ht.
      split; [reflexivity|]. unfold own_table in Et. rewrite Hfg in Et. cbn [bind] in Et.
      destruct (footer_is_gains _ _ _ _ _ _ Et) as (Hl & _ & _ & total & yv & Hv & _ & Hy).
      change (years_sorted gains0) with (@nil Z) in *. split; [exact Hl|].
      inversion Hy; subst. rewrite Hv. reflexivity.
  Qed.
End Local.

(* ================================================================ D. exact arithmetic: the aggregate is the sum of the tables' own totals *)
Local Open Scope Qc_scope.

Lemma security_gains_exact_total rows : forall g, exists g', security_gains exact g rows = Ok g'.
Proof.
  induction rows as [|r rows IH]; intros g; cbn [security_gains]; [eexists; reflexivity|].
  unfold add_gain. destruct (snd r); cbn [a_add exact bind]; apply IH.
Qed.

Lemma add_years_exact_total ys : forall acc, exists acc', add_years exact acc ys = Ok acc'.
Proof.
  induction ys as [|[y v] ys IH]; intros acc; cbn [add_years]; [eexists; reflexivity|].
  cbn [a_add exact bind]. apply IH.
Qed.

Lemma aggregate_exact_total secs : forall g, exists g', aggregate exact g secs = Ok g'.
Proof.
  induction secs as [|s secs IH]; intros g; cbn [aggregate]; [eexists; reflexivity|].
  unfold add_security. cbn [a_add exact bind].
  destruct (add_years_exact_total (g_years s) (g_years g)) as [ys E]. rewrite E. cbn [bind]. apply IH.
Qed.

(* the figures of a security's footer, as a function *)
Definition xfooter (r : outcome) : gains :=
  match footer_gains exact r with Ok g => g | _ => gains0 end.
Definition xown (r : outcome) : option gains :=
  match snd r with None => Some (xfooter r) | Some _ => None end.

Lemma footer_gains_exact r :
  footer_gains exact r = Ok (xfooter r) /\ own_gains exact r = Ok (xown r) /\
  NoDup (map fst (g_years (xfooter r))) /\ (snd r <> None -> xfooter r = gains0).
Proof.
  unfold xown, xfooter, footer_gains, own_gains. destruct (snd r) as [st|]; cbn [bind gains_or_default].
  - split; [reflexivity|]. split; [reflexivity|]. split; [constructor | reflexivity].
  - destruct (security_gains_exact_total (gain_rows (fst r)) gains0) as [g E]. rewrite E.
    cbn [bind gains_or_default]. split; [reflexivity|]. split; [reflexivity|]. split; [|congruence].
    eapply security_gains_keys; [exact E | constructor].
Qed.

Lemma collect_exact (l : list (N * outcome)) :
  collect (map (fun x => own_gains exact (snd x)) l) = Ok (some_gains (map (fun x => xown (snd x)) l)).
Proof.
  induction l as [|x l IH]; cbn [map collect]; [reflexivity|].
  destruct (footer_gains_exact (snd x)) as (_ & E & _). rewrite E, IH. cbn [bind].
  destruct (xown (snd x)); reflexivity.
Qed.

Lemma sum_some (f : gains -> Qc) (l : list (N * outcome)) :
  f gains0 = 0 ->
  sum_secs f (some_gains (map (fun x => xown (snd x)) l)) = sum_secs f (map (fun x => xfooter (snd x)) l).
Proof.
  intros H0. induction l as [|x l IH]; cbn [map sum_secs]; [reflexivity|].
  destruct (footer_gains_exact (snd x)) as (_ & _ & _ & Hf). unfold xown at 1.
  destruct (snd (snd x)) as [st|].
  - change (some_gains (None :: ?r)) with (some_gains r). rewrite IH, Hf by discriminate. rewrite H0. ring.
  - change (some_gains (Some ?g :: ?r)) with (g :: some_gains r). cbn [sum_secs]. rewrite IH. reflexivity.
Qed.

Lemma some_gains_in g (l : list (N * outcome)) :
  In g (some_gains (map (fun x => xown (snd x)) l)) ->
  exists x, In x l /\ g = xfooter (snd x).
Proof.
  induction l as [|x l IH]; cbn [map]; [intros []|].
  unfold xown at 1. destruct (snd (snd x)) as [st|].
  - change (some_gains (None :: ?r)) with (some_gains r). intros H.
    destruct (IH H) as [y [Hy E]]. exists y. split; [right; exact Hy | exact E].
  - change (some_gains (Some ?g :: ?r)) with (g :: some_gains r). intros [H|H].
    + exists x. split; [left; reflexivity | symmetry; exact H].
    + destruct (IH H) as [y [Hy E]]. exists y. split; [right; exact Hy | exact E].
Qed.

Lemma some_gains_in_rev (l : list (N * outcome)) x :
  In x l -> xfooter (snd x) = gains0 \/ In (xfooter (snd x)) (some_gains (map (fun x => xown (snd x)) l)).
Proof.
  induction l as [|z l IH]; [intros []|]. intros [->|H]; cbn [map].
  - destruct (footer_gains_exact (snd x)) as (_ & _ & _ & Hf). unfold xown at 1.
    destruct (snd (snd x)) as [st|]; [left; apply Hf; discriminate|].
    right. change (some_gains (Some ?g :: ?r)) with (g :: some_gains r). left; reflexivity.
  - destruct (IH H) as [E|E]; [left; exact E|]. right.
    unfold xown at 1. destruct (snd (snd z)).
    + exact E.
    + change (some_gains (Some ?g :: ?r)) with (g :: some_gains r). right; exact E.
Qed.

(* the years an aggregate shows: those of the starting record and of the
   securities added (any arithmetic) *)
Lemma zupdate_keys_in x k v l : In x (map fst (zupdate k v l)) <-> x = k \/ In x (map fst l).
Proof.
  induction l as [|[a b] l IH]; cbn [zupdate map fst In].
  - intuition.
  - destruct (Z.eqb k a) eqn:E; cbn [map fst In].
    + apply Z.eqb_eq in E. subst a. intuition.
    + rewrite IH. intuition.
Qed.

Lemma add_years_keys A ys : forall acc acc' y,
  add_years A acc ys = Ok acc' ->
  (In y (map fst acc') <-> In y (map fst acc) \/ In y (map fst ys)).
Proof.
  induction ys as [|[k v] ys IH]; intros acc acc' y H; cbn [add_years] in H.
  - inversion H; subst. cbn [map In]. intuition.
  - bind_as H as s Es. rewrite (IH _ _ y H), zupdate_keys_in. cbn [map fst In]. intuition.
Qed.

Lemma aggregate_keys A secs : forall g g' y,
  aggregate A g secs = Ok g' ->
  (In y (map fst (g_years g')) <-> In y (map fst (g_years g)) \/ exists s, In s secs /\ In y (map fst (g_years s))).
Proof.
  induction secs as [|s secs IH]; intros g g' y H; cbn [aggregate] in H.
  - inversion H; subst. split; [auto | intros [H1|[s [[] _]]]; exact H1].
  - bind_as H as g1 E1. unfold add_security in E1. bind_as E1 as t Et. bind_as E1 as ys Ey.
    inversion E1; subst g1; clear E1. rewrite (IH _ _ y H). cbn [g_years].
    rewrite (add_years_keys _ _ _ _ y Ey). split.
    + intros [[H1|H1]|[k [Hk Hy]]]; [left; exact H1 | right; exists s; split; [left; reflexivity | exact H1]
                                     | right; exists k; split; [right; exact Hk | exact Hy]].
    + intros [H1|[k [[<-|Hk] Hy]]]; [left; left; exact H1 | left; right; exact Hy | right; exists k; auto].
Qed.

(* the aggregate of a ledger result, exact arithmetic: always there; total and
   every year are the sums of the securities' footer figures (a failed
   security's footer is the empty record: nothing) *)
Theorem app_aggregate_exact (secs : list (N * outcome)) :
  exists agg,
    app_aggregate exact secs = Ok agg /\
    g_total agg = sum_secs g_total (map (fun x => xfooter (snd x)) secs) /\
    (forall y, year_val y (g_years agg)
               = sum_secs (fun g => year_val y (g_years g)) (map (fun x => xfooter (snd x)) secs)) /\
    (forall y, In y (map fst (g_years agg))
               <-> exists x, In x secs /\ In y (map fst (g_years (xfooter (snd x))))).
Proof.
  rewrite app_aggregate_collect, collect_exact. cbn [bind].
  destruct (aggregate_exact_total (some_gains (map (fun x => xown (snd x)) secs)) gains0) as [agg E].
  exists agg. split; [exact E|].
  assert (HF : Forall (fun s => NoDup (map fst (g_years s))) (some_gains (map (fun x => xown (snd x)) secs))).
  { apply Forall_forall. intros g Hg. apply some_gains_in in Hg as [x [_ ->]].
    apply (footer_gains_exact (snd x)). }
  destruct (aggregate_totals _ _ E HF) as [Ht Hy]. split; [|split].
  - rewrite Ht. apply sum_some. reflexivity.
  - intros y. rewrite Hy. apply (sum_some (fun g => year_val y (g_years g))). reflexivity.
  - intros y. rewrite (aggregate_keys _ _ _ _ y E). cbn [gains0 g_years map In]. split.
    + intros [[]|[g [Hg Hy']]]. apply some_gains_in in Hg as [x [Hx ->]]. exists x. auto.
    + intros [x [Hx Hy']]. right. destruct (some_gains_in_rev _ _ Hx) as [E0|Hin].
      * rewrite E0 in Hy'. destruct Hy'.
      * eexists; split; [exact Hin | exact Hy'].
Qed.

(* ================================================================ E. adding the rows of other securities adds their own totals *)
Lemma strongly_sorted_nodup l : StronglySorted N.lt l -> NoDup l.
Proof.
  induction 1 as [|a l Hs IH Ha]; constructor; [|exact IH].
  intros Hin. rewrite Forall_forall in Ha. specialize (Ha _ Hin). lia.
Qed.

Lemma nodup_app {T} (l1 l2 : list T) :
  NoDup l1 -> NoDup l2 -> (forall x, In x l1 -> ~ In x l2) -> NoDup (l1 ++ l2).
Proof.
  induction l1 as [|a l1 IH]; intros H1 H2 Hd; cbn [app]; [exact H2|].
  apply NoDup_cons_iff in H1 as [Ha H1]. constructor.
  - intros Hin. apply in_app_or in Hin as [Hin|Hin]; [contradiction|]. apply (Hd a); [left; reflexivity | exact Hin].
  - apply IH; try assumption. intros x Hx. apply Hd. right; exact Hx.
Qed.

Lemma sum_secs_app f l1 l2 : sum_secs f (l1 ++ l2) = sum_secs f l1 + sum_secs f l2.
Proof. induction l1 as [|a l1 IH]; cbn [app sum_secs]; [ring | rewrite IH; ring]. Qed.

Lemma xfooter_independent inits s a b i :
  interleave a b i -> Forall (fun y => N.eqb (t_sec y) s = false) b ->
  xfooter (outcome_of exact inits (number i) s) = xfooter (outcome_of exact inits (number a) s).
Proof.
  intros Hi Hb. unfold xfooter.
  rewrite <- (footer_gains_erase exact (outcome_of exact inits (number i) s)).
  unfold outcome_of. rewrite (independent_of_other_securities exact _ s a b i Hi Hb).
  rewrite footer_gains_erase. reflexivity.
Qed.

Section Additive.
  Variable inits : list (N * status).
  Variables a b i : list tx.
  Hypothesis Hi : interleave a b i.
  Hypothesis Hd : forall x y, In x a -> In y b -> t_sec x <> t_sec y.

  Let L (l : list tx) : list N := securities (sort_txs (number l)).
  Let F (l : list tx) (s : N) : gains := xfooter (outcome_of exact inits (number l) s).

  Lemma other_rows_a s : In s (L a) -> Forall (fun y => N.eqb (t_sec y) s = false) b.
  Proof.
    intros Hs. apply run_has_security, in_map_iff in Hs as [x [Hx Hin]].
    apply Forall_forall. intros y Hy. apply N.eqb_neq. intros E. apply (Hd x y Hin Hy). congruence.
  Qed.
  Lemma other_rows_b s : In s (L b) -> Forall (fun y => N.eqb (t_sec y) s = false) a.
  Proof.
    intros Hs. apply run_has_security, in_map_iff in Hs as [y [Hy Hin]].
    apply Forall_forall. intros x Hx. apply N.eqb_neq. intros E. apply (Hd x y Hx Hin). congruence.
  Qed.

  Lemma secs_in s : In s (L i) <-> In s (L a) \/ In s (L b).
  Proof.
    unfold L. rewrite !run_has_security.
    apply (interleave_in (map t_sec a) (map t_sec b) (map t_sec i)), interleave_map, Hi.
  Qed.

  Lemma secs_perm : Permutation (L i) (L a ++ L b).
  Proof.
    apply NoDup_Permutation.
    - apply strongly_sorted_nodup, securities_sorted.
    - apply nodup_app; try (apply strongly_sorted_nodup, securities_sorted).
      intros s Ha Hb. apply run_has_security, in_map_iff in Ha as [x [Hx Hina]].
      apply run_has_security, in_map_iff in Hb as [y [Hy Hinb]]. apply (Hd x y Hina Hinb). congruence.
    - intros s. rewrite in_app_iff. apply secs_in.
  Qed.

  Lemma F_a s : In s (L a) -> F i s = F a s.
  Proof. intros Hs. apply (xfooter_independent inits s a b i Hi), other_rows_a, Hs. Qed.
  Lemma F_b s : In s (L b) -> F i s = F b s.
  Proof. intros Hs. apply (xfooter_independent inits s b a i (interleave_sym _ _ _ Hi)), other_rows_b, Hs. Qed.

  Lemma sums_split (f : gains -> Qc) :
    sum_secs f (map (F i) (L i)) = sum_secs f (map (F a) (L a)) + sum_secs f (map (F b) (L b)).
  Proof.
    rewrite (sum_secs_perm f _ _ (Permutation_map (F i) secs_perm)), map_app, sum_secs_app.
    rewrite (map_ext_in _ _ _ F_a), (map_ext_in _ _ _ F_b). reflexivity.
  Qed.

  Lemma results_footers l :
    map (fun x : N * outcome => xfooter (snd x)) (results exact inits l) = map (F l) (L l).
  Proof. unfold results. rewrite map_map. reflexivity. Qed.

  Lemma results_keys l (P : gains -> Prop) :
    (exists x, In x (results exact inits l) /\ P (xfooter (snd x))) <-> exists s, In s (L l) /\ P (F l s).
  Proof.
    unfold results. split.
    - intros [x [Hx Hp]]. apply in_map_iff in Hx as [s [<- Hs]]. exists s. auto.
    - intros [s [Hs Hp]]. exists (s, outcome_of exact inits (number l) s). split; [|exact Hp].
      apply in_map_iff. exists s. auto.
  Qed.

  (* the aggregate of the run on the interleaving = the aggregate of the run
     on a + the aggregate of the run on b (which counts the securities of b
     that process without error, see [app_aggregate_exact]): total, every
     year's figure, and the set of years shown.  Exact arithmetic. *)
  Theorem aggregate_additive :
    exists gi ga gb,
      app_aggregate exact (results exact inits i) = Ok gi /\
      app_aggregate exact (results exact inits a) = Ok ga /\
      app_aggregate exact (results exact inits b) = Ok gb /\
      g_total gi = g_total ga + g_total gb /\
      (forall y, year_val y (g_years gi) = year_val y (g_years ga) + year_val y (g_years gb)) /\
      (forall y, In y (years_sorted gi) <-> In y (years_sorted ga) \/ In y (years_sorted gb)).
  Proof.
    destruct (app_aggregate_exact (results exact inits i)) as (gi & Ei & Ti & Yi & Ki).
    destruct (app_aggregate_exact (results exact inits a)) as (ga & Ea & Ta & Ya & Ka).
    destruct (app_aggregate_exact (results exact inits b)) as (gb & Eb & Tb & Yb & Kb).
    exists gi, ga, gb. repeat (split; [assumption|]).
    rewrite results_footers in *. split; [|split].
    - rewrite Ti, Ta, Tb. apply sums_split.
    - intros y. rewrite Yi, Ya, Yb. apply (sums_split (fun g => year_val y (g_years g))).
    - intros y. rewrite !years_sorted_in, Ki, Ka, Kb.
      rewrite !(results_keys _ (fun g => In y (map fst (g_years g)))). split.
      + intros [s [Hs Hy]]. apply secs_in in Hs as [Hs|Hs].
        * left. exists s. rewrite <- (F_a s Hs). auto.
        * right. exists s. rewrite <- (F_b s Hs). auto.
      + intros [[s [Hs Hy]]|[s [Hs Hy]]]; exists s.
        * rewrite (F_a s Hs). split; [apply secs_in; left; exact Hs | exact Hy].
        * rewrite (F_b s Hs). split; [apply secs_in; right; exact Hs | exact Hy].
  Qed.
End Additive.

(* ================================================================ F. the rendered report: aggregate rows = sums of the footers *)
Definition footer_shows (full : bool) (g : gains) (tb : table) : Prop :=
  tb_labels tb = LTotal :: map LYear (years_sorted g) /\
  tb_values tb = pm_value full (g_total g) false
                   :: map (fun yr => pm_value full (year_val yr (g_years g)) false) (years_sorted g).

Definition aggregate_shows (full : bool) (g : gains) (rows : list (label * pm)) : Prop :=
  rows = combine (map LYear (years_sorted g))
                 (map (fun yr => pm_value full (year_val yr (g_years g)) false) (years_sorted g))
         ++ [(LSince, pm_value full (g_total g) false)].

Theorem aggregate_is_sum_of_tables full cur secs rep :
  render_results exact full cur secs = Ok rep ->
  exists (gl : list gains) agg,
    Forall2 (fun g (y : N * option stop * table) => footer_shows full g (snd y)) gl (rp_tables rep) /\
    Forall2 (fun g (x : sec_result) => snd (snd x) <> None -> g = gains0) gl secs /\
    aggregate_shows full agg (rp_aggregate rep) /\
    g_total agg = sum_secs g_total gl /\
    (forall y, year_val y (g_years agg) = sum_secs (fun g => year_val y (g_years g)) gl) /\
    (forall y, In y (years_sorted agg) <-> exists g, In g gl /\ In y (years_sorted g)).
Proof.
  intros H. exists (map (fun x : N * outcome => xfooter (snd x)) secs).
  destruct (render_results_aggregate _ _ _ _ _ H) as [agg [Ea Er]]. exists agg.
  destruct (app_aggregate_exact secs) as (agg' & Ea' & Ht & Hy & Hk).
  rewrite Ea in Ea'. inversion Ea'; subst agg'; clear Ea'.
  apply render_results_spec in H as [HF _].
  split; [|split; [|split; [|split; [exact Ht | split; [exact Hy|]]]]].
  - clear -HF. induction HF as [|x y l tabs Hxy HF IH]; cbn [map]; [constructor|]. constructor; [|exact IH].
    apply sec_table_rel_own in Hxy as (_ & _ & Ht'). unfold own_table in Ht'.
    destruct (footer_gains_exact (snd x)) as (Ef & _). rewrite Ef in Ht'. cbn [bind] in Ht'.
    destruct (footer_is_gains _ _ _ _ _ _ Ht') as (Hl & _ & _ & total & yv & Hv & Hp & Hys).
    split; [exact Hl|]. rewrite Hv. rewrite plus_minus_exact in Hp. inversion Hp; subst total.
    f_equal. apply Forall2_pm_exact in Hys. exact Hys.
  - clear. induction secs as [|x l IH]; cbn [map]; [constructor|]. constructor; [|exact IH].
    apply (footer_gains_exact (snd x)).
  - destruct (aggregate_is_gains _ _ _ _ Er) as (total & yv & Hrows & _ & Hp & Hys).
    unfold aggregate_shows. rewrite Hrows. rewrite plus_minus_exact in Hp. inversion Hp; subst total.
    apply Forall2_pm_exact in Hys. rewrite Hys. reflexivity.
  - intros y. rewrite years_sorted_in, Hk. split.
    + intros [x [Hx Hin]]. exists (xfooter (snd x)). split; [apply (in_map (fun x : N * outcome => xfooter (snd x))); exact Hx | apply years_sorted_in; exact Hin].
    + intros [g [Hg Hin]]. apply in_map_iff in Hg as [x [<- Hx]]. exists x. split; [exact Hx | apply years_sorted_in; exact Hin].
Qed.

(* ================================================================ G. rust_decimal rounding: additivity is not a theorem *)
(* three securities whose own totals are 1000000000000000000000000000.5, 0.04
   and 0.04: the aggregate of all three (added in this order, each sum rounded
   to 28-29 significant digits) is ...000.5; the aggregates of the first alone
   and of the other two are ...000.5 and 0.08, whose sum is ...000.58 (exactly)
   or ...000.6 (rounded) *)
Definition dec_x : gains := {| g_total := Qcfrac 10000000000000000000000000005 10; g_years := [] |}.
Definition dec_e : gains := {| g_total := Qcfrac 4 100; g_years := [] |}.
Theorem aggregate_additive_dec_refuted :
  exists la lb gi ga gb,
    aggregate dec gains0 (la ++ lb) = Ok gi /\ aggregate dec gains0 la = Ok ga /\
    aggregate dec gains0 lb = Ok gb /\
    g_total gi <> g_total ga + g_total gb /\ a_add dec (g_total ga) (g_total gb) <> Ok (g_total gi).
Proof.
  exists [dec_x], [dec_e; dec_e]. do 3 eexists.
  split; [vm_compute; reflexivity|]. split; [vm_compute; reflexivity|]. split; [vm_compute; reflexivity|].
  split.
  - intros H. apply (f_equal (fun q : Qc => this q)) in H. vm_compute in H. discriminate H.
  - intros H. vm_compute in H. discriminate H.
Qed.
