(* Lemmas about the exchange-rate look-up model (C12): the calendar, the
   year map built by fill_in_unknown_day_rates, and the equivalence of the
   stateless look-up with the declarative rule of Spec/RateRule.v. *)
From Coq Require Import List NArith ZArith QArith Qcanon Bool Lia Lqa.
From ACB Require Import Base.Outcome Base.QcExtra Base.Fit Base.Arith
     Model.Rates Model.RatesCache Spec.RateRule.
Import ListNotations.
Local Open Scope Z_scope.

(* ------------------------------------------------------------------ calendar *)
Lemma jan1_step y : 365 <= jan1 (y + 1) - jan1 y <= 366.
Proof.
  unfold jan1, days_before_year. cbv zeta.
  replace (y + 1 - 1) with (y - 1 + 1) by lia.
  set (p := y - 1).
  Z.div_mod_to_equations; lia.
Qed.

Lemma jan1_ge y1 y2 : y1 <= y2 -> 365 * (y2 - y1) <= jan1 y2 - jan1 y1.
Proof.
  intros H. unfold jan1, days_before_year. cbv zeta.
  Z.div_mod_to_equations; lia.
Qed.

Lemma jan1_lt y1 y2 : y1 < y2 -> jan1 y1 < jan1 y2.
Proof. intros H. pose proof (jan1_ge y1 y2 ltac:(lia)). lia. Qed.

Lemma jan1_le y1 y2 : y1 <= y2 -> jan1 y1 <= jan1 y2.
Proof. intros H. pose proof (jan1_ge y1 y2 H). lia. Qed.

Lemma year_len_bounds y : 365 <= year_len y <= 366.
Proof. unfold year_len. apply jan1_step. Qed.

Lemma year_est_lo d : jan1 (year_est d) <= d.
Proof.
  unfold jan1, days_before_year, year_est. cbv zeta.
  set (z := d + 719162).
  replace (400 * (z / 146097) + z mod 146097 / 366 + 1 - 1)
    with (400 * (z / 146097) + z mod 146097 / 366) by lia.
  assert (Hz : z = 146097 * (z / 146097) + z mod 146097) by (apply Z.div_mod; lia).
  assert (Hr : 0 <= z mod 146097 < 146097) by (apply Z.mod_pos_bound; lia).
  set (n := z / 146097) in *. set (r := z mod 146097) in *.
  assert (Hq : 0 <= r / 366 <= 399) by (Z.div_mod_to_equations; lia).
  assert (Hq2 : 366 * (r / 366) <= r) by (apply Z.mul_div_le; lia).
  set (q := r / 366) in *.
  replace d with (z - 719162) by (unfold z; lia).
  Z.div_mod_to_equations; lia.
Qed.

Lemma year_est_hi d : d < jan1 (year_est d + 3).
Proof.
  unfold jan1, days_before_year, year_est. cbv zeta.
  set (z := d + 719162).
  replace (400 * (z / 146097) + z mod 146097 / 366 + 1 + 3 - 1)
    with (400 * (z / 146097) + (z mod 146097 / 366 + 3)) by lia.
  assert (Hz : z = 146097 * (z / 146097) + z mod 146097) by (apply Z.div_mod; lia).
  assert (Hr : 0 <= z mod 146097 < 146097) by (apply Z.mod_pos_bound; lia).
  set (n := z / 146097) in *. set (r := z mod 146097) in *.
  assert (Hq : 0 <= r / 366 <= 399) by (Z.div_mod_to_equations; lia).
  assert (Hq2 : r < 366 * (r / 366 + 1)).
  { pose proof (Z.mod_pos_bound r 366 ltac:(lia)). pose proof (Z.div_mod r 366 ltac:(lia)). lia. }
  set (q := r / 366) in *.
  replace d with (z - 719162) by (unfold z; lia).
  Z.div_mod_to_equations; lia.
Qed.

(* Date::year() is the year whose 1 January .. 31 December contain the day *)
Lemma year_of_spec d : jan1 (year_of d) <= d < jan1 (year_of d + 1).
Proof.
  unfold year_of. cbv zeta.
  pose proof (year_est_lo d) as Hlo. pose proof (year_est_hi d) as Hhi.
  set (y := year_est d) in *.
  pose proof (jan1_le y (y + 1) ltac:(lia)) as H1.
  pose proof (jan1_le (y + 1) (y + 2) ltac:(lia)) as H2.
  destruct (d <? jan1 (y + 1)) eqn:E1.
  - apply Z.ltb_lt in E1. lia.
  - apply Z.ltb_ge in E1.
    destruct (d <? jan1 (y + 2)) eqn:E2.
    + apply Z.ltb_lt in E2. replace (y + 1 + 1) with (y + 2) by lia. lia.
    + apply Z.ltb_ge in E2. replace (y + 2 + 1) with (y + 3) by lia. lia.
Qed.

Lemma year_of_unique d y : jan1 y <= d < jan1 (y + 1) -> year_of d = y.
Proof.
  intros H. pose proof (year_of_spec d) as S.
  destruct (Z.lt_trichotomy (year_of d) y) as [L | [E | G]]; [ | exact E | ].
  - pose proof (jan1_le (year_of d + 1) y ltac:(lia)). lia.
  - pose proof (jan1_le (y + 1) (year_of d) ltac:(lia)). lia.
Qed.

Lemma year_of_jan1 y : year_of (jan1 y) = y.
Proof. apply year_of_unique. pose proof (jan1_step y). lia. Qed.

(* ------------------------------------------------------------------ mget *)
Lemma mget_app x l1 l2 :
  mget x (l1 ++ l2) = match mget x l2 with Some r => Some r | None => mget x l1 end.
Proof.
  induction l1 as [| [d r] t IH]; cbn [app mget].
  - destruct (mget x l2); reflexivity.
  - rewrite IH. destruct (mget x l2); reflexivity.
Qed.

Lemma mget_zeros x c n :
  mget x (zeros c n) = if (c <=? x) && (x <? c + Z.of_nat n) then Some 0%Qc else None.
Proof.
  revert c. induction n as [| k IH]; intros c; cbn [zeros mget].
  - destruct (c <=? x) eqn:E1; destruct (x <? c + Z.of_nat 0) eqn:E2; cbn; try reflexivity.
    apply Z.leb_le in E1. apply Z.ltb_lt in E2. lia.
  - rewrite IH.
    destruct (c + 1 <=? x) eqn:E1; destruct (x <? c + 1 + Z.of_nat k) eqn:E2; cbn [andb].
    + apply Z.leb_le in E1. apply Z.ltb_lt in E2.
      replace (c <=? x) with true by (symmetry; apply Z.leb_le; lia).
      replace (x <? c + Z.of_nat (S k)) with true by (symmetry; apply Z.ltb_lt; lia). reflexivity.
    + apply Z.leb_le in E1. apply Z.ltb_ge in E2.
      replace (c =? x) with false by (symmetry; apply Z.eqb_neq; lia).
      replace (x <? c + Z.of_nat (S k)) with false by (symmetry; apply Z.ltb_ge; lia).
      rewrite andb_false_r. reflexivity.
    + apply Z.leb_gt in E1. apply Z.ltb_lt in E2.
      destruct (c =? x) eqn:E3.
      * apply Z.eqb_eq in E3.
        replace (c <=? x) with true by (symmetry; apply Z.leb_le; lia).
        replace (x <? c + Z.of_nat (S k)) with true by (symmetry; apply Z.ltb_lt; lia). reflexivity.
      * apply Z.eqb_neq in E3.
        replace (c <=? x) with false by (symmetry; apply Z.leb_gt; lia). reflexivity.
    + apply Z.leb_gt in E1. apply Z.ltb_ge in E2.
      destruct (c =? x) eqn:E3.
      * apply Z.eqb_eq in E3. lia.
      * apply Z.eqb_neq in E3.
        replace (c <=? x) with false by (symmetry; apply Z.leb_gt; lia). reflexivity.
Qed.

(* ------------------------------------------------ ascending observation lists *)
(* dates strictly ascending, all >= lo *)
Fixpoint asc (lo : Z) (rs : list drate) : Prop :=
  match rs with
  | [] => True
  | (d, _) :: t => lo <= d /\ asc (d + 1) t
  end.
(* one past the last date (or the given cursor) *)
Fixpoint end_of (rs : list drate) (cur : Z) : Z :=
  match rs with
  | [] => cur
  | (d, _) :: t => end_of t (d + 1)
  end.
(* rate of a day, zero when there is none *)
Definition valz (rs : list drate) (x : Z) : Qc :=
  match mget x rs with Some r => r | None => 0%Qc end.

Lemma asc_weaken lo lo' rs : lo' <= lo -> asc lo rs -> asc lo' rs.
Proof. destruct rs as [| [d r] t]; cbn; intros; [exact I | ]. intuition lia. Qed.

Lemma asc_end_of lo rs : asc lo rs -> lo <= end_of rs lo.
Proof.
  revert lo. induction rs as [| [d r] t IH]; cbn [asc end_of]; intros lo H; [lia | ].
  destruct H as [H1 H2]. specialize (IH _ H2). lia.
Qed.

Lemma end_of_cur_irrel d r t c1 c2 : end_of ((d, r) :: t) c1 = end_of ((d, r) :: t) c2.
Proof. reflexivity. Qed.

Lemma asc_mget_range lo rs x v : asc lo rs -> mget x rs = Some v -> lo <= x < end_of rs lo.
Proof.
  revert lo v. induction rs as [| [d r] t IH]; cbn [asc end_of mget]; intros lo v H E; [discriminate | ].
  destruct H as [H1 H2].
  destruct (mget x t) as [v' |] eqn:Et.
  - specialize (IH _ v' H2 eq_refl). lia.
  - destruct (d =? x) eqn:Ed; [ | discriminate ].
    apply Z.eqb_eq in Ed. subst x. pose proof (asc_end_of _ _ H2). lia.
Qed.

Lemma asc_mget_none lo rs x : asc lo rs -> x < lo -> mget x rs = None.
Proof.
  intros H L. destruct (mget x rs) as [v |] eqn:E; [ | reflexivity ].
  pose proof (asc_mget_range _ _ _ _ H E). lia.
Qed.

(* ------------------------------------------------------------------ fill *)
Lemma fill_loop_spec rs : forall cur,
  asc cur rs ->
  let '(l, c) := fill_loop rs cur in
  c = end_of rs cur /\
  forall x, mget x l = if (cur <=? x) && (x <? c) then Some (valz rs x) else None.
Proof.
  induction rs as [| [d r] t IH]; intros cur H; cbn [fill_loop].
  - split; [reflexivity | ]. intros x. cbn [mget].
    destruct (cur <=? x) eqn:E1; destruct (x <? cur) eqn:E2; cbn; try reflexivity.
    apply Z.leb_le in E1. apply Z.ltb_lt in E2. lia.
  - cbn [asc] in H. destruct H as [H1 H2].
    replace (cur + Z.of_nat (Z.to_nat (d - cur)) + 1) with (d + 1) by lia.
    specialize (IH (d + 1) H2).
    destruct (fill_loop t (d + 1)) as [l c]. destruct IH as [Hc Hl].
    cbn [end_of]. split; [exact Hc | ].
    pose proof (asc_end_of _ _ H2) as Hend. rewrite <- Hc in Hend.
    intros x. rewrite mget_app. cbn [mget]. rewrite Hl, mget_zeros.
    replace (cur + Z.of_nat (Z.to_nat (d - cur))) with d by lia.
    unfold valz. cbn [mget].
    destruct (d + 1 <=? x) eqn:E1.
    + apply Z.leb_le in E1.
      destruct (x <? c) eqn:E2; cbn [andb].
      * replace (cur <=? x) with true by (symmetry; apply Z.leb_le; lia). cbn [andb].
        unfold valz. destruct (mget x t) as [v |]; [reflexivity | ].
        replace (d =? x) with false by (symmetry; apply Z.eqb_neq; lia). reflexivity.
      * replace (d =? x) with false by (symmetry; apply Z.eqb_neq; lia).
        replace (x <? d) with false by (symmetry; apply Z.ltb_ge; lia).
        rewrite !andb_false_r. reflexivity.
    + apply Z.leb_gt in E1. cbn [andb].
      rewrite (asc_mget_none _ _ x H2) by lia.
      destruct (d =? x) eqn:E3.
      * apply Z.eqb_eq in E3. subst x.
        replace (cur <=? d) with true by (symmetry; apply Z.leb_le; lia).
        replace (d <? c) with true by (symmetry; apply Z.ltb_lt; lia). reflexivity.
      * apply Z.eqb_neq in E3.
        destruct (cur <=? x) eqn:E4; cbn [andb].
        -- apply Z.leb_le in E4.
           replace (x <? d) with true by (symmetry; apply Z.ltb_lt; lia).
           replace (x <? c) with true by (symmetry; apply Z.ltb_lt; lia). reflexivity.
        -- reflexivity.
Qed.

Lemma fill_tail_spec today y : forall fuel cur,
  jan1 y <= cur ->
  Z.of_nat fuel = Z.max 0 (today - cur) ->
  fill_tail fuel cur today y = zeros cur (Z.to_nat (Z.min today (jan1 (y + 1)) - cur)).
Proof.
  induction fuel as [| k IH]; intros cur Hlo Hf; cbn [fill_tail].
  - replace (Z.to_nat (Z.min today (jan1 (y + 1)) - cur)) with O by lia. reflexivity.
  - replace (cur <? today) with true by (symmetry; apply Z.ltb_lt; lia). cbn [andb].
    destruct (Z_lt_le_dec cur (jan1 (y + 1))) as [L | G].
    + rewrite (year_of_unique cur y) by lia. rewrite Z.eqb_refl.
      rewrite IH by lia.
      replace (Z.to_nat (Z.min today (jan1 (y + 1)) - cur))
        with (S (Z.to_nat (Z.min today (jan1 (y + 1)) - (cur + 1)))) by lia.
      reflexivity.
    + replace (year_of cur =? y) with false.
      * replace (Z.to_nat (Z.min today (jan1 (y + 1)) - cur)) with O by lia. reflexivity.
      * symmetry. apply Z.eqb_neq. intros E. pose proof (year_of_spec cur) as S. rewrite E in S. lia.
Qed.

(* the days a year map covers: from 1 January up to (excluding) [cover] *)
Definition cover (rs : list drate) (y today : Z) : Z :=
  Z.max (end_of rs (jan1 y)) (Z.min today (jan1 (y + 1))).

(* the year map: every day from 1 January up to the later of the last
   observation and yesterday (within the year) has an entry -- the rate of
   the day, or zero *)
Lemma fill_spec rs y today x :
  asc (jan1 y) rs ->
  mget x (fill rs y today) =
    if (jan1 y <=? x) && (x <? cover rs y today) then Some (valz rs x) else None.
Proof.
  intros H. unfold fill, cover.
  pose proof (fill_loop_spec rs (jan1 y) H) as S.
  destruct (fill_loop rs (jan1 y)) as [l c]. destruct S as [Hc Hl].
  pose proof (asc_end_of _ _ H) as Hend. rewrite <- Hc in *.
  rewrite (fill_tail_spec today y _ c) by lia.
  rewrite mget_app, mget_zeros, Hl.
  set (m := Z.min today (jan1 (y + 1))).
  replace (c + Z.of_nat (Z.to_nat (m - c))) with (Z.max c m) by lia.
  destruct (c <=? x) eqn:E1.
  - apply Z.leb_le in E1.
    replace (jan1 y <=? x) with true by (symmetry; apply Z.leb_le; lia).
    replace (x <? c) with false by (symmetry; apply Z.ltb_ge; lia).
    rewrite andb_false_r. cbn [andb].
    destruct (x <? Z.max c m) eqn:E2; [ | reflexivity ].
    unfold valz. destruct (mget x rs) as [v |] eqn:Ev; [ | reflexivity ].
    pose proof (asc_mget_range _ _ _ _ H Ev). lia.
  - apply Z.leb_gt in E1. cbn [andb].
    destruct (jan1 y <=? x) eqn:E3; cbn [andb].
    + replace (x <? c) with true by (symmetry; apply Z.ltb_lt; lia).
      replace (x <? Z.max c m) with true by (symmetry; apply Z.ltb_lt; lia). reflexivity.
    + reflexivity.
Qed.

(* ------------------------------------------------------------------ pubrates *)
Lemma obs_in_asc pub : forall n from, asc from (obs_in pub from n).
Proof.
  induction n as [| k IH]; intros from; cbn [obs_in]; [exact I | ].
  destruct (pub from) as [r |].
  - cbn [asc]. split; [lia | apply IH].
  - apply (asc_weaken (from + 1)); [lia | apply IH].
Qed.

Lemma obs_in_mget pub x : forall n from,
  mget x (obs_in pub from n) =
    if (from <=? x) && (x <? from + Z.of_nat n) then pub x else None.
Proof.
  induction n as [| k IH]; intros from; cbn [obs_in].
  - cbn [mget]. destruct (from <=? x) eqn:E1; destruct (x <? from + Z.of_nat 0) eqn:E2; cbn; try reflexivity.
    apply Z.leb_le in E1. apply Z.ltb_lt in E2. lia.
  - assert (Hstep : (if (from <=? x) && (x <? from + Z.of_nat (S k)) then pub x else None)
                    = if from =? x then pub x
                      else if (from + 1 <=? x) && (x <? from + 1 + Z.of_nat k) then pub x else None).
    { destruct (from =? x) eqn:E.
      - apply Z.eqb_eq in E. subst x.
        replace (from <=? from) with true by (symmetry; apply Z.leb_le; lia).
        replace (from <? from + Z.of_nat (S k)) with true by (symmetry; apply Z.ltb_lt; lia). reflexivity.
      - apply Z.eqb_neq in E.
        destruct (from + 1 <=? x) eqn:E1; destruct (x <? from + 1 + Z.of_nat k) eqn:E2; cbn [andb].
        + apply Z.leb_le in E1. apply Z.ltb_lt in E2.
          replace (from <=? x) with true by (symmetry; apply Z.leb_le; lia).
          replace (x <? from + Z.of_nat (S k)) with true by (symmetry; apply Z.ltb_lt; lia). reflexivity.
        + apply Z.ltb_ge in E2.
          replace (x <? from + Z.of_nat (S k)) with false by (symmetry; apply Z.ltb_ge; lia).
          rewrite andb_false_r. reflexivity.
        + apply Z.leb_gt in E1.
          replace (from <=? x) with false by (symmetry; apply Z.leb_gt; lia). reflexivity.
        + apply Z.leb_gt in E1.
          replace (from <=? x) with false by (symmetry; apply Z.leb_gt; lia). reflexivity. }
    rewrite Hstep. clear Hstep.
    destruct (pub from) as [r |] eqn:Ep.
    + cbn [mget]. rewrite IH.
      destruct (from =? x) eqn:E.
      * apply Z.eqb_eq in E. subst x.
        replace (from + 1 <=? from) with false by (symmetry; apply Z.leb_gt; lia).
        cbn [andb]. symmetry. exact Ep.
      * destruct ((from + 1 <=? x) && (x <? from + 1 + Z.of_nat k)); [ | reflexivity ].
        destruct (pub x); reflexivity.
    + rewrite IH.
      destruct (from =? x) eqn:E.
      * apply Z.eqb_eq in E. subst x.
        replace (from + 1 <=? from) with false by (symmetry; apply Z.leb_gt; lia).
        cbn [andb]. symmetry. exact Ep.
      * reflexivity.
Qed.

(* the cursor after the observations: unchanged, or one past a published day *)
Lemma obs_in_end_cases pub : forall n from c,
  end_of (obs_in pub from n) c = c \/
  exists x, from <= x < from + Z.of_nat n /\ pub x <> None /\ end_of (obs_in pub from n) c = x + 1.
Proof.
  induction n as [| k IH]; intros from c; cbn [obs_in].
  - left. reflexivity.
  - destruct (pub from) as [r |] eqn:Ep.
    + cbn [end_of]. destruct (IH (from + 1) (from + 1)) as [E | [x [Hx [Hp E]]]].
      * right. exists from. rewrite E. split; [lia | ]. split; [congruence | reflexivity].
      * right. exists x. split; [lia | ]. split; [exact Hp | exact E].
    + destruct (IH (from + 1) c) as [E | [x [Hx [Hp E]]]].
      * left. exact E.
      * right. exists x. split; [lia | ]. split; [exact Hp | exact E].
Qed.

Lemma obs_in_end_gt pub x : forall n from c,
  from <= x < from + Z.of_nat n -> pub x <> None -> x < end_of (obs_in pub from n) c.
Proof.
  induction n as [| k IH]; intros from c Hx Hp; [lia | ].
  cbn [obs_in].
  destruct (Z.eq_dec from x) as [E | NE].
  - subst x. destruct (pub from) as [r |] eqn:Ep; [ | congruence ].
    cbn [end_of]. pose proof (asc_end_of _ _ (obs_in_asc pub k (from + 1))). lia.
  - destruct (pub from) as [r |].
    + cbn [end_of]. apply IH; [lia | exact Hp].
    + apply IH; [lia | exact Hp].
Qed.

Lemma pubrates_asc pub y : asc (jan1 y) (pubrates pub y).
Proof. apply obs_in_asc. Qed.

Lemma pubrates_mget pub y x :
  mget x (pubrates pub y) = if (jan1 y <=? x) && (x <? jan1 (y + 1)) then pub x else None.
Proof.
  unfold pubrates. rewrite obs_in_mget.
  pose proof (year_len_bounds y) as B. unfold year_len in *.
  replace (jan1 y + Z.of_nat (Z.to_nat (jan1 (y + 1) - jan1 y))) with (jan1 (y + 1)) by lia.
  reflexivity.
Qed.

Lemma pubrates_valz pub x :
  valz (pubrates pub (year_of x)) x = match pub x with Some r => r | None => 0%Qc end.
Proof.
  unfold valz. rewrite pubrates_mget.
  pose proof (year_of_spec x) as S.
  replace (jan1 (year_of x) <=? x) with true by (symmetry; apply Z.leb_le; lia).
  replace (x <? jan1 (year_of x + 1)) with true by (symmetry; apply Z.ltb_lt; lia).
  reflexivity.
Qed.

Lemma pubrates_end_le pub y : end_of (pubrates pub y) (jan1 y) <= jan1 (y + 1).
Proof.
  unfold pubrates. pose proof (year_len_bounds y) as B. unfold year_len in *.
  destruct (obs_in_end_cases pub (Z.to_nat (jan1 (y + 1) - jan1 y)) (jan1 y) (jan1 y)) as [E | [x [Hx [_ E]]]];
    rewrite E; lia.
Qed.

(* a day of year y is covered by the reference map of a calendar iff it is
   before today or not after the last published day of the year *)
Lemma covered_iff pub y today x :
  jan1 y <= x < jan1 (y + 1) ->
  (x < cover (pubrates pub y) y today <->
   x < today \/ exists x', x <= x' < jan1 (y + 1) /\ pub x' <> None).
Proof.
  intros Hx. unfold cover.
  pose proof (year_len_bounds y) as B. unfold year_len in B.
  split.
  - intros H.
    destruct (Z_lt_le_dec x today) as [L | G]; [left; exact L | right].
    assert (He : x < end_of (pubrates pub y) (jan1 y)) by lia.
    unfold pubrates in He.
    destruct (obs_in_end_cases pub (Z.to_nat (year_len y)) (jan1 y) (jan1 y)) as [E | [x' [Hx' [Hp E]]]].
    + rewrite E in He. lia.
    + rewrite E in He. exists x'. unfold year_len in Hx'. split; [lia | exact Hp].
  - intros [L | [x' [Hx' Hp]]]; [lia | ].
    assert (x' < end_of (pubrates pub y) (jan1 y)).
    { unfold pubrates. apply obs_in_end_gt; [unfold year_len; lia | exact Hp]. }
    lia.
Qed.

(* ------------------------------------------------- reference look-up = rule *)
Section Rule.
  Variable pub : calendar.
  Variable today : Z.
  (* nothing is published for a day after today *)
  Hypothesis pub_past : forall x, pub x <> None -> x <= today.
  (* a published rate is not the placeholder *)
  Hypothesis pub_nonzero : forall x, pub x <> Some 0%Qc.

  Lemma exact_ref_char d :
    exact_ref (pubrates pub) today d =
      match pub d with
      | Some r => inr (Some (d, r))
      | None => if d <? today then inr None else inl LNotYet
      end.
  Proof.
    unfold exact_ref, refmap. rewrite fill_spec by apply pubrates_asc.
    pose proof (year_of_spec d) as S.
    replace (jan1 (year_of d) <=? d) with true by (symmetry; apply Z.leb_le; lia). cbn [andb].
    rewrite pubrates_valz.
    destruct (d <? cover (pubrates pub (year_of d)) (year_of d) today) eqn:Ec.
    - apply Z.ltb_lt in Ec. apply covered_iff in Ec; [ | lia ].
      destruct (pub d) as [r |] eqn:Ep.
      + destruct (Qceqb_spec r 0%Qc) as [Z0 | NZ]; [ | reflexivity ].
        subst r. exfalso. exact (pub_nonzero d Ep).
      + destruct (Qceqb_spec 0%Qc 0%Qc) as [_ | NZ]; [ | exfalso; apply NZ; reflexivity ].
        destruct Ec as [L | [x' [Hx' Hp]]].
        * replace (d <? today) with true by (symmetry; apply Z.ltb_lt; lia). reflexivity.
        * pose proof (pub_past x' Hp) as Hle.
          destruct (Z.eq_dec x' d) as [E | NE]; [subst x'; congruence | ].
          replace (d <? today) with true by (symmetry; apply Z.ltb_lt; lia). reflexivity.
    - apply Z.ltb_ge in Ec.
      assert (Hn : ~ (d < today \/ exists x', d <= x' < jan1 (year_of d + 1) /\ pub x' <> None)).
      { intros C. apply (covered_iff pub (year_of d) today d) in C; lia. }
      destruct (pub d) as [r |] eqn:Ep.
      + exfalso. apply Hn. right. exists d. split; [lia | congruence].
      + assert (today <= d) by (destruct (Z_lt_le_dec d today); [exfalso; apply Hn; left; assumption | assumption]).
        replace (today <=? d) with true by (symmetry; apply Z.leb_le; lia).
        replace (d <? today) with false by (symmetry; apply Z.ltb_ge; lia). reflexivity.
  Qed.

  Lemma lookback_ref_char : forall n d,
    d <= today ->
    match lookback_ref (pubrates pub) today n d with
    | inr (x, r) => d - Z.of_nat n <= x < d /\ pub x = Some r /\ (forall z, x < z < d -> pub z = None)
    | inl e => e = LNone7 /\ forall z, d - Z.of_nat n <= z < d -> pub z = None
    end.
  Proof.
    induction n as [| k IH]; intros d Hd; cbn [lookback_ref].
    - split; [reflexivity | ]. intros z Hz. lia.
    - rewrite exact_ref_char.
      destruct (pub (d - 1)) as [r |] eqn:Ep.
      + split; [lia | ]. split; [exact Ep | ]. intros z Hz. lia.
      + replace (d - 1 <? today) with true by (symmetry; apply Z.ltb_lt; lia).
        specialize (IH (d - 1) ltac:(lia)).
        destruct (lookback_ref (pubrates pub) today k (d - 1)) as [e | [x r]].
        * destruct IH as [He Hz]. split; [exact He | ].
          intros z Hz'. destruct (Z.eq_dec z (d - 1)) as [E | NE]; [subst z; exact Ep | apply Hz; lia].
        * destruct IH as [Hx [Hp Hz]]. split; [lia | ]. split; [exact Hp | ].
          intros z Hz'. destruct (Z.eq_dec z (d - 1)) as [E | NE]; [subst z; exact Ep | apply Hz; lia].
  Qed.

  (* the look-up is exactly the declarative rule *)
  Lemma effective_ref_rule d :
    match effective_ref (pubrates pub) today d with
    | inr (x, r) => rule_ok pub today d x r
    | inl LNotYet => rule_not_yet pub today d
    | inl LNone7 => rule_none7 pub today d
    | inl _ => False
    end.
  Proof.
    unfold effective_ref. rewrite exact_ref_char.
    destruct (pub d) as [r |] eqn:Ep.
    - unfold rule_ok. split; [left; congruence | ]. split; [lia | ]. split; [exact Ep | ].
      intros z Hz. lia.
    - destruct (d <? today) eqn:Et.
      + apply Z.ltb_lt in Et.
        pose proof (lookback_ref_char 7 d ltac:(lia)) as L.
        destruct (lookback_ref (pubrates pub) today 7 d) as [e | [x r]].
        * destruct L as [He Hz]. subst e. unfold rule_none7. split; [exact Et | ].
          intros z Hz'. destruct (Z.eq_dec z d) as [E | NE]; [subst z; exact Ep | apply Hz; lia].
        * destruct L as [Hx [Hp Hz]]. unfold rule_ok. split; [right; exact Et | ].
          split; [lia | ]. split; [exact Hp | ].
          intros z Hz'. destruct (Z.eq_dec z d) as [E | NE]; [subst z; exact Ep | apply Hz; lia].
      + apply Z.ltb_ge in Et. unfold rule_not_yet. split; [exact Ep | exact Et].
  Qed.
End Rule.

(* the three outcomes of the rule exclude each other and the rate is unique *)
Lemma rule_ok_unique pub today d x1 r1 x2 r2 :
  rule_ok pub today d x1 r1 -> rule_ok pub today d x2 r2 -> x1 = x2 /\ r1 = r2.
Proof.
  intros (_ & H1 & P1 & N1) (_ & H2 & P2 & N2).
  destruct (Z.lt_trichotomy x1 x2) as [L | [E | G]].
  - rewrite (N1 x2 ltac:(lia)) in P2. discriminate.
  - subst x2. rewrite P1 in P2. inversion P2. auto.
  - rewrite (N2 x1 ltac:(lia)) in P1. discriminate.
Qed.

Lemma rule_ok_not_error pub today d x r :
  rule_ok pub today d x r -> ~ rule_not_yet pub today d /\ ~ rule_none7 pub today d.
Proof.
  intros (H0 & H1 & P & N). split.
  - intros [Pn T]. destruct H0 as [H0 | H0]; [congruence | lia].
  - intros [T Z]. rewrite (Z x ltac:(lia)) in P. discriminate.
Qed.

Lemma rule_errors_exclusive pub today d : rule_not_yet pub today d -> rule_none7 pub today d -> False.
Proof. intros [_ T] [L _]. lia. Qed.

(* ------------------------------------------------------------ observations *)
Lemma parse_obs_daily d r x :
  a_div dec 1%Qc r = Ok x ->
  parse_obs {| o_date := Some d; o_noon := JAbsent; o_daily := JGood r |} = Ok (Some (d, x)).
Proof. intros H. unfold parse_obs. cbn [o_date o_noon o_daily]. rewrite H. reflexivity. Qed.

Lemma parse_obs_noon d r dl :
  parse_obs {| o_date := Some d; o_noon := JGood r; o_daily := dl |} = Ok (Some (d, r)).
Proof. reflexivity. Qed.

Lemma parse_obs_skipped o :
  o_date o = None \/ o_noon o = JBad \/ (o_noon o = JAbsent /\ o_daily o <> JGood 0%Qc /\
                                         forall r, o_daily o <> JGood r) ->
  parse_obs o = Ok None.
Proof.
  unfold parse_obs. intros [H | [H | [H1 [_ H2]]]].
  - rewrite H. reflexivity.
  - destruct (o_date o); [ | reflexivity ]. rewrite H. reflexivity.
  - destruct (o_date o); [ | reflexivity ]. rewrite H1.
    destruct (o_daily o) as [ | | r]; try reflexivity. exfalso. apply (H2 r). reflexivity.
Qed.

Lemma pair_decisions : forall (c : option currency) (q : Qc) (n : N),
  load_decide c (Some q) = LKeep /\
  load_decide (Some CAD) None = LKeep /\ load_decide None None = LKeep /\
  load_decide (Some USD) None = LLoadUsd /\
  load_decide (Some (OtherCur n)) None = LErr ENoAuto /\
  valid_rate (Some CAD) None = inr (Some (CAD, 1%Qc)) /\
  (q <> 1%Qc -> exists err, valid_rate (Some CAD) (Some q) = inl err) /\
  valid_rate (Some (OtherCur n)) None = inl ECurrWithoutFx /\
  ((0 < q)%Qc -> valid_rate (Some USD) (Some q) = inr (Some (USD, q))).
Proof.
  intros c q n.
  split; [reflexivity | ]. split; [reflexivity | ]. split; [reflexivity | ].
  split; [reflexivity | ]. split; [reflexivity | ]. split; [reflexivity | ].
  split; [ | split; [reflexivity | ] ].
  - intros Hq. unfold valid_rate. destruct (Qcltb 0%Qc q); [ | eexists; reflexivity ].
    cbn [is_default andb]. destruct (Qceqb_spec q 1%Qc) as [E | NE]; [contradiction | ].
    cbn [negb]. eexists; reflexivity.
  - intros Hq. unfold valid_rate. destruct (Qcltb_spec 0%Qc q) as [P | NP]; [reflexivity | contradiction].
Qed.

Lemma daily_noon : forall d r x dl,
  (a_div dec 1%Qc r = Ok x ->
   parse_obs {| o_date := Some d; o_noon := JAbsent; o_daily := JGood r |} = Ok (Some (d, x))) /\
  parse_obs {| o_date := Some d; o_noon := JGood r; o_daily := dl |} = Ok (Some (d, r)).
Proof. intros d r x dl. split; [apply parse_obs_daily | apply parse_obs_noon]. Qed.

(* ---- observations as the Bank of Canada serves them: one series per year ---- *)
(* raw observation: date, series (true = FXCADUSD daily), published value *)
Definition raw_obs : Type := (Z * bool * Qc)%type.
Definition obs_of_raw (x : raw_obs) : obs :=
  let '(d, daily, v) := x in
  if daily then {| o_date := Some d; o_noon := JAbsent; o_daily := JGood v |}
  else {| o_date := Some d; o_noon := JGood v; o_daily := JAbsent |}.
(* the USD/CAD rate it stands for *)
Definition rate_of_raw (x : raw_obs) : res drate :=
  let '(d, daily, v) := x in
  if daily then r <- a_div dec 1%Qc v ;; Ok (d, r) else Ok (d, v).
Fixpoint rates_of_raw (l : list raw_obs) : res (list drate) :=
  match l with
  | [] => Ok []
  | x :: t => r <- rate_of_raw x ;; rs <- rates_of_raw t ;; Ok (r :: rs)
  end.

Lemma parse_all_raw l : parse_all (map obs_of_raw l) = rates_of_raw l.
Proof.
  induction l as [| [[d daily] v] t IH]; cbn [map parse_all rates_of_raw]; [reflexivity | ].
  rewrite IH. unfold obs_of_raw, rate_of_raw. destruct daily; cbn [parse_obs o_date o_noon o_daily].
  - destruct (a_div dec 1%Qc v) as [r | |]; cbn [bind]; try reflexivity;
      try (destruct (rates_of_raw t); reflexivity).
  - cbn [bind]. try reflexivity; try (destruct (rates_of_raw t); reflexivity).
Qed.


(* ---- an inverted observation is never the zero placeholder ---- *)
Lemma rhe_ge_one x d : Zpos d <= x -> 1 <= rhe x d.
Proof.
  intros H. unfold rhe.
  assert (Hq : 1 <= x / Zpos d) by (apply Z.div_le_lower_bound; lia).
  destruct (2 * (x mod Zpos d) ?= Zpos d); [destruct (Z.even (x / Zpos d)) | | ]; lia.
Qed.

Lemma rhe_le x d : 0 <= x -> rhe x d <= x / Zpos d + 1.
Proof.
  intros H. unfold rhe.
  destruct (2 * (x mod Zpos d) ?= Zpos d); [destruct (Z.even (x / Zpos d)) | | ]; lia.
Qed.

Lemma Qcfrac_nonzero m p : m <> 0 -> Qcfrac m p <> 0%Qc.
Proof.
  intros H E. apply Qc_eq_Qeq in E. unfold Qcfrac, Q2Qc in E. cbn [this] in E.
  rewrite !Qred_correct in E. unfold Qeq in E. cbn [Qnum Qden] in E. lia.
Qed.

Lemma fit_from_nonzero d : forall s n r,
  0 < n -> Zpos d <= n * Zpos (p10 s) -> fit_from s n d = Some r -> r <> 0%Qc.
Proof.
  induction s as [| s IH]; intros n r Hn Hge H; cbn [fit_from] in H.
  - set (m := rhe (n * Zpos (p10 0)) d) in *.
    pose proof (rhe_ge_one _ _ Hge : 1 <= m) as H1.
    destruct (Z.abs m <=? max_mant); [ | discriminate ].
    inversion H; subst r. apply Qcfrac_nonzero. lia.
  - set (x := n * Zpos (p10 (S s))) in *. set (m := rhe x d) in *.
    pose proof (rhe_ge_one x d Hge : 1 <= m) as H1.
    destruct (Z.leb_spec (Z.abs m) max_mant) as [L | G].
    + inversion H; subst r. apply Qcfrac_nonzero. lia.
    + apply (IH n r Hn); [ | exact H ].
      assert (Hx : 0 <= x) by (unfold x; lia).
      pose proof (rhe_le x d Hx) as Hle. fold m in Hle.
      assert (Hdiv : max_mant <= x / Zpos d) by lia.
      assert (Hxd : max_mant * Zpos d <= x).
      { pose proof (Z.mul_div_le x (Zpos d) ltac:(lia)). nia. }
      assert (Hp : Zpos (p10 (S s)) = 10 * Zpos (p10 s)).
      { destruct s as [| s']; [reflexivity | ].
        unfold p10, pow10. rewrite Nat2Pos.inj_succ by discriminate.
        rewrite Pos.pow_succ_r. reflexivity. }
      unfold x in Hxd. rewrite Hp in Hxd. unfold max_mant in Hxd. nia.
Qed.

(* an inverted observation is never the zero placeholder: for every raw value
   0 < v <= 10^28, 1/v rounds to a non-zero rate *)
Lemma inverted_nonzero (v x : Qc) :
  (0 < v)%Qc -> (v <= Qcfrac 10000000000000000000000000000 1)%Qc ->
  a_div dec 1%Qc v = Ok x -> x <> 0%Qc.
Proof.
  intros Hpos Hle H. cbn [a_div dec] in H.
  destruct (Qceqb v 0%Qc); [discriminate | ].
  unfold fit_res in H. destruct (fit (1 / v)%Qc) as [r |] eqn:E; [ | discriminate ].
  inversion H; subst x. unfold fit in E.
  set (q := (1 / v)%Qc) in *.
  assert (Hv : (0 < this v)%Q).
  { unfold Qclt, Q2Qc in Hpos. cbn [this] in Hpos. rewrite Qred_correct in Hpos. exact Hpos. }
  assert (Hv2 : (this v <= 10000000000000000000000000000 # 1)%Q).
  { unfold Qcle, Qcfrac, Q2Qc in Hle. cbn [this] in Hle. rewrite Qred_correct in Hle. exact Hle. }
  assert (Hq : (1 # 10000000000000000000000000000 <= this q)%Q).
  { unfold q, Qcdiv, Qcmult, Qcinv, Q2Qc. cbn [this]. rewrite !Qred_correct.
    change (1 * / this v)%Q with (1 / this v)%Q.
    apply Qle_shift_div_l; [exact Hv | ]. lra. }
  assert (Hn : 0 < Qnum (this q)).
  { unfold Qle in Hq. cbn [Qnum Qden] in Hq. lia. }
  apply (fit_from_nonzero (Qden (this q)) 28 (Qnum (this q)) r Hn); [ | exact E ].
  unfold Qle in Hq. cbn [Qnum Qden] in Hq.
  change (Zpos (p10 28)) with 10000000000000000000000000000. lia.
Qed.
