(* C10: from the model's entry points (sec_run, make_summary, roundtrip_of) to
   the ledger-loop round trip (C10Window.roundtrip_ranges), for one security
   without rows entered for all affiliates. *)
From Coq Require Import List NArith ZArith QArith Qcanon Bool Lia Sorted Permutation.
From ACB Require Import Base.Outcome Base.QcExtra Base.Arith Model.Tx Model.Ledger Model.Sfl
     Model.DeltaList Model.App Model.Summary Model.SummaryObs Proofs.Tactics Proofs.C15Full Proofs.C04Sum
     Proofs.C04Inv Proofs.C04Reject Proofs.RenderProps Proofs.C01Refine Proofs.EraseRi Proofs.SortLayout
     Proofs.C16App Proofs.SummaryProps
     Proofs.C10Scan Proofs.C10Sim Proofs.C10Ranges Proofs.C10Cut Proofs.C10Roundtrip Proofs.C10Window Proofs.C10Holdings.
Import ListNotations.
Local Open Scope Z_scope.

(* ---------------------------------------------------------------- properties of the rows carried to every reported row *)
Section TxProp.
  Variable regof : N -> bool.
  Variable sec : N.
  Definition rowQ (t : tx) : Prop := t_glob t = false /\ t_sec t = sec /\ goodtx regof t.

  Lemma gen_sfla_fields A t loss ps l :
    gen_sfla A t loss ps = Ok l -> Forall (fun x => t_glob x = false /\ t_sec x = t_sec t) l.
  Proof.
    revert l. induction ps as [|[af [n dn]] ps IH]; cbn [gen_sfla]; intros l H.
    - inversion H; constructor.
    - destruct (negb (Qceqb n 0) && negb (af_reg af)).
      + bind_as H as q Eq. bind_as H as q1 Eq1. bind_as H as q2 Eq2. bind_as H as m Em.
        bind_as H as amt Ea. bind_as H as rest Er. inversion H; subst l.
        constructor; [split; reflexivity | eapply IH; eauto].
      + eauto.
  Qed.
  Lemma delta_for_tx_inj_fields A bef t aft st d inj :
    delta_for_tx A bef t aft st = Ok (d, inj) -> Forall (fun x => t_glob x = false /\ t_sec x = t_sec t) inj.
  Proof.
    unfold delta_for_tx. intros H. bind_as H as u Eu.
    destruct (t_act t) as [n price com rate crate | n price com rate crate sp | amount rate
                          | n amount | post pre_ io];
      try (bind_as H as d0 Ed; inversion H; constructor).
    bind_as H as c Ec. destruct (sc_gain c) as [g|]; [|inversion H; constructor].
    destruct (Qcltb g 0).
    - bind_as H as m Em. destruct m as [[info inj']|]; [|inversion H; constructor].
      bind_as H as g' Eg. inversion H; subst. clear H.
      unfold delta_sfl in Em. bind_as Em as i Ei. bind_as Em as mm Emm. bind_as Em as calc Ecalc.
      destruct sp as [[sv force]|].
      + bind_as Em as u0 Eu0. destruct (negb (Qcltb sv 0)); [discriminate|].
        bind_as Em as q Eq. bind_as Em as nn En. inversion Em; constructor.
      + destruct mm as [r|]; [|discriminate].
        destruct (negb (Qcltb calc 0)); [discriminate|].
        bind_as Em as txs Et. inversion Em; subst. eapply gen_sfla_fields; eauto.
    - destruct sp; [discriminate|]. inversion H; constructor.
  Qed.

  Lemma inj_rowQ A bef t aft st d inj :
    delta_for_tx A bef t aft st = Ok (d, inj) -> Forall rowQ bef -> Forall rowQ aft -> rowQ t -> Forall rowQ inj.
  Proof.
    intros Ed Hb Ha (Hg & Hs & Hgd).
    pose proof (delta_for_tx_inj_fields _ _ _ _ _ _ _ Ed) as H1.
    assert (H2 : Forall (goodtx regof) inj).
    { eapply (delta_for_tx_inj_P (goodaf regof)); [exact Ed| |].
      - eapply Forall_impl; [|exact Hb]. intros x Hx. apply Hx.
      - eapply Forall_impl; [|exact Ha]. intros x Hx. apply Hx. }
    clear -H1 H2 Hs. induction inj as [|x r IH]; constructor.
    - destruct (Forall_inv H1) as [E1 E2]. repeat split; [exact E1 | congruence | exact (Forall_inv H2)].
    - apply IH; [exact (Forall_inv_tail H1) | exact (Forall_inv_tail H2)].
  Qed.

  Lemma run_injected_rowQ inj : forall bef st aft ds b st',
    Forall rowQ inj -> Forall rowQ bef ->
    run_injected exact bef st inj aft = (ds, b, st', None) ->
    Forall (fun d => rowQ (d_tx d)) ds /\ Forall rowQ b.
  Proof.
    induction inj as [|t inj IH]; intros bef st aft ds b st' Hi Hb H; cbn [run_injected] in H.
    - inversion H; subst. split; [constructor | exact Hb].
    - apply Forall_cons_iff in Hi as [Ht Hi].
      destruct (delta_for_tx exact bef t (inj ++ aft) st) as [[d i]| |] eqn:Ed; try discriminate.
      destruct (set_latest exact st (t_af t) (d_post d)) as [st1| |]; try discriminate.
      destruct (run_injected exact (t :: bef) st1 inj aft) as [[[ds0 b0] s0] o0] eqn:Er.
      inversion H; subst.
      destruct (IH _ _ _ _ _ _ Hi (Forall_cons _ Ht Hb) Er) as [I1 I2].
      split; [|exact I2]. constructor; [|exact I1]. rewrite (delta_tx_eq _ _ _ _ _ _ _ Ed). exact Ht.
  Qed.

  Lemma run_loop_rowQ l : forall bef st ds,
    Forall rowQ l -> Forall rowQ bef ->
    run_loop exact bef st l = (ds, None) -> Forall (fun d => rowQ (d_tx d)) ds.
  Proof.
    induction l as [|t l IH]; intros bef st ds Hl Hb H; cbn [run_loop] in H.
    - inversion H; constructor.
    - apply Forall_cons_iff in Hl as [Ht Hl].
      destruct (delta_for_tx exact bef t l st) as [[d inj]| |] eqn:Ed; try discriminate.
      destruct (set_latest exact st (t_af t) (d_post d)) as [st1| |]; try discriminate.
      destruct (run_injected exact (t :: bef) st1 inj l) as [[[dsi b1] st2] o1] eqn:Ei.
      destruct o1; [discriminate|].
      destruct (run_loop exact b1 st2 l) as [ds' o'] eqn:Er. inversion H; subst.
      pose proof (inj_rowQ _ _ _ _ _ _ _ Ed Hb Hl Ht) as Hinj.
      destruct (run_injected_rowQ _ _ _ _ _ _ _ Hinj (Forall_cons _ Ht Hb) Ei) as [I1 I2].
      constructor; [rewrite (delta_tx_eq _ _ _ _ _ _ _ Ed); exact Ht|].
      apply Forall_app. split; [exact I1|]. eapply IH; eassumption.
  Qed.
End TxProp.

(* ---------------------------------------------------------------- sorting *)
Lemma number_from_eq k l : Summary.number_from k l = SortLayout.number_from k l.
Proof. revert k. induction l as [|t l IH]; intros k; cbn [Summary.number_from SortLayout.number_from]; [reflexivity|]. rewrite IH. reflexivity. Qed.

Lemma sd_sorted_erase l : sd_sorted (map erase l) -> sd_sorted l.
Proof.
  induction l as [|t l IH]; cbn [map]; intros H; [constructor|].
  apply StronglySorted_inv in H as [H Ht]. constructor; [apply IH; exact H|].
  rewrite Forall_forall in Ht. apply Forall_forall. intros y Hy. apply (Ht (erase y)). apply in_map. exact Hy.
Qed.
Lemma sd_sorted_erase' l : sd_sorted l -> sd_sorted (map erase l).
Proof.
  induction 1 as [|t l H IH Ht]; cbn [map]; [constructor|]. constructor; [exact IH|].
  rewrite Forall_forall in Ht. apply Forall_forall. intros y Hy. apply in_map_iff in Hy as (z & <- & Hz).
  apply (Ht z Hz).
Qed.

Lemma filter_erase (p : Z -> bool) l : map erase (filter (fun t => p (t_sd t)) l) = filter (fun t => p (t_sd t)) (map erase l).
Proof.
  induction l as [|t l IH]; cbn [filter map]; [reflexivity|]. cbn [erase t_sd].
  destruct (p (t_sd t)); cbn [map]; rewrite IH; reflexivity.
Qed.

Lemma sort_sd_filter (p : Z -> bool) l :
  sort_sd (filter (fun t => p (t_sd t)) l) = filter (fun t => p (t_sd t)) (sort_sd l).
Proof.
  apply sorted_unique.
  - apply sort_sd_sorted.
  - apply filter_sorted, sort_sd_sorted.
  - intros k. rewrite sort_sd_on_day.
    rewrite (filter_comm (on_day k) (fun t => p (t_sd t)) (sort_sd l)), sort_sd_on_day. apply filter_comm.
Qed.

Lemma sort_sd_app_sorted A B :
  sd_sorted A -> Forall (fun a => Forall (fun b => t_sd a <= t_sd b) B) A -> sort_sd (A ++ B) = A ++ sort_sd B.
Proof.
  induction 1 as [|a A Hs IH Ha]; intros HB; [reflexivity|].
  apply Forall_cons_iff in HB as [HaB HB]. cbn [app]. unfold sort_sd at 1. cbn [fold_right].
  fold (sort_sd (A ++ B)). rewrite (IH HB). apply insert_sd_first.
  apply Forall_app. split; [exact Ha|]. apply Forall_forall. intros y Hy. apply (proj1 (In_sort_sd _ _)) in Hy.
  rewrite Forall_forall in HaB. apply HaB. exact Hy.
Qed.

Lemma sort_sd_id l : sd_sorted l -> sort_sd l = l.
Proof. intros H. rewrite <- (app_nil_r l) at 1. rewrite sort_sd_app_sorted; [apply app_nil_r | exact H|]. apply Forall_forall. intros; constructor. Qed.

(* the stable sort of the generated purchases generates a permutation of the holdings *)
Lemma insert_sd_hold like (h : hold_row) hs :
  exists hs', Permutation hs' (h :: hs) /\ insert_sd (hold_tx like h) (map (hold_tx like) hs) = map (hold_tx like) hs'.
Proof.
  induction hs as [|x hs IH]; cbn [map insert_sd].
  - exists [h]. split; reflexivity.
  - destruct (t_sd (hold_tx like h) <=? t_sd (hold_tx like x)).
    + exists (h :: x :: hs). split; reflexivity.
    + destruct IH as (hs' & Hp & E). exists (x :: hs'). split.
      * rewrite Hp. apply perm_swap.
      * cbn [map]. rewrite E. reflexivity.
Qed.
Lemma sort_sd_hold like hs :
  exists hs', Permutation hs' hs /\ sort_sd (map (hold_tx like) hs) = map (hold_tx like) hs'.
Proof.
  induction hs as [|h hs IH]; [exists []; split; reflexivity|].
  destruct IH as (hs1 & Hp1 & E1). cbn [map]. unfold sort_sd. cbn [fold_right]. fold (sort_sd (map (hold_tx like) hs)).
  rewrite E1. destruct (insert_sd_hold like h hs1) as (hs' & Hp & E). exists hs'. split; [|exact E].
  rewrite Hp. constructor. exact Hp1.
Qed.
Lemma erase_hold like hs : map erase (map (hold_tx like) hs) = map (hold_tx like) hs.
Proof. induction hs as [|[[af st] date] hs IH]; cbn [map]; [reflexivity|]. rewrite IH. reflexivity. Qed.

(* ---------------------------------------------------------------- no rows for all affiliates: nothing to expand *)
Lemma global_split_check_noglob aft : Forall (fun t => t_glob t = false) aft -> forall bef, global_split_check bef aft = true.
Proof.
  induction 1 as [|t aft Ht HF IH]; intros bef; cbn [global_split_check]; [reflexivity|].
  rewrite Ht, andb_false_r. apply IH.
Qed.
Lemma replace_noglob b l : Forall (fun t => t_glob t = false) l -> replace_global_splits b l = Ok l.
Proof.
  intros H. unfold replace_global_splits. rewrite (global_split_check_noglob l H []). cbn [negb].
  assert (E : existsb (fun t => is_split (t_act t) && t_glob t) l = false).
  { clear -H. induction H as [|t l Ht HF IH]; cbn [existsb]; [reflexivity|]. rewrite Ht, andb_false_r, IH. reflexivity. }
  rewrite E. reflexivity.
Qed.
Lemma sec_run_noglob A rows : Forall (fun t => t_glob t = false) rows -> sec_run A rows = run A None (sort_txs rows).
Proof.
  intros H. unfold sec_run. rewrite replace_noglob; [reflexivity|].
  apply Forall_forall. intros x Hx. apply (proj1 (In_sort_txs _ _)) in Hx. rewrite Forall_forall in H. apply H. exact Hx.
Qed.

(* ---------------------------------------------------------------- what is compared *)
Lemma oeqb_refl o : oeqb o o = true.
Proof. destruct o; cbn; [apply Qceqb_refl | reflexivity]. Qed.
Lemma same_report_refl d : same_report d d = true.
Proof.
  unfold same_report. rewrite N.eqb_refl, Z.eqb_refl, !Qceqb_refl, !oeqb_refl. unfold aff_eqb. rewrite N.eqb_refl. reflexivity.
Qed.
Lemma same_reports_refl l : same_reports l l = true.
Proof. induction l as [|d l IH]; cbn [same_reports]; [reflexivity|]. rewrite same_report_refl, IH. reflexivity. Qed.
Lemma same_report_erase a b : same_report a (erase_d b) = same_report a b.
Proof. reflexivity. Qed.
Lemma same_reports_erase a : forall b, same_reports a (map erase_d b) = same_reports a b.
Proof.
  induction a as [|x a IH]; intros [|y b]; cbn [map same_reports]; try reflexivity.
  rewrite same_report_erase, IH. reflexivity.
Qed.
Lemma later_deltas_erase latest ds : later_deltas latest (map erase_d ds) = map erase_d (later_deltas latest ds).
Proof.
  unfold later_deltas. induction ds as [|d ds IH]; cbn [map filter]; [reflexivity|].
  change (d_sd (erase_d d)) with (d_sd d). destruct (latest <? d_sd d); cbn [map]; rewrite IH; reflexivity.
Qed.
Lemma later_deltas_split latest a b :
  Forall (fun d => d_sd d <= latest) a -> Forall (fun d => latest < d_sd d) b -> later_deltas latest (a ++ b) = b.
Proof.
  intros Ha Hb. unfold later_deltas. rewrite filter_app.
  assert (E1 : filter (fun d => latest <? d_sd d) a = []).
  { clear -Ha. induction Ha as [|x a Hx Ha IH]; cbn [filter]; [reflexivity|].
    assert (E : latest <? d_sd x = false) by (apply Z.ltb_ge; exact Hx). rewrite E. exact IH. }
  assert (E2 : filter (fun d => latest <? d_sd d) b = b).
  { clear -Hb. induction Hb as [|x b Hx Hb IH]; cbn [filter]; [reflexivity|].
    assert (E : latest <? d_sd x = true) by (apply Z.ltb_lt; exact Hx). rewrite E, IH. reflexivity. }
  rewrite E1, E2. reflexivity.
Qed.

Lemma filter_erase_d l : filter (fun d => negb (idle_split d)) (map erase_d l) = map erase_d (filter (fun d => negb (idle_split d)) l).
Proof.
  induction l as [|d l IH]; cbn [map filter]; [reflexivity|].
  change (idle_split (erase_d d)) with (idle_split d). destruct (negb (idle_split d)); cbn [map]; rewrite IH; reflexivity.
Qed.

(* ---------------------------------------------------------------- assembling the re-run *)
Lemma assemble_any annual latest rows0 ds dsLe dsT GK T dsGK :
  let rows := Summary.number_from 0 rows0 in
  Forall (fun t => t_glob t = false) rows0 ->
  T = filter (fun t => latest <? t_sd t) (sort_txs rows) ->
  make_summary exact latest ds annual = Ok GK -> through_csv GK = GK ->
  Forall (fun t => t_glob t = false) GK -> sd_sorted GK -> Forall (fun t => t_sd t <= latest) GK ->
  run exact None (GK ++ T) = (dsGK ++ dsT, None) ->
  ds = dsLe ++ dsT -> Forall (fun d => d_sd d <= latest) dsLe -> Forall (fun d => latest < d_sd d) dsT ->
  Forall (fun d => d_sd d <= latest) dsGK ->
  roundtrip_of exact latest annual rows ds = true /\ roundtrip_obs_of exact latest annual rows ds = true.
Proof.
  intros rows Hng ET Hms Hcsv HngGK HsGK HleGK Hrun Eds HLe HT HGK.
  unfold roundtrip_of, roundtrip_obs_of. rewrite Hms, Hcsv.
  set (X := GK ++ rows_after latest rows).
  assert (HngX : Forall (fun t => t_glob t = false) (Summary.number_from 0 X)).
  { rewrite number_from_eq. assert (HX : Forall (fun t => t_glob t = false) X).
    { apply Forall_app. split; [exact HngGK|]. unfold rows_after. apply Forall_forall. intros x Hx.
      apply filter_In in Hx as [Hx _]. unfold rows in Hx. rewrite number_from_eq in Hx.
      clear -Hx Hng. revert Hx. generalize 0%N. induction Hng as [|y l Hy Hl IH]; intros k Hx; [destruct Hx|].
      destruct Hx as [<-|Hx]; [exact Hy | eapply IH; exact Hx]. }
    clear -HX. generalize 0%N. induction HX as [|y l Hy Hl IH]; intros k; constructor; [exact Hy | apply IH]. }
  rewrite (sec_run_noglob exact _ HngX).
  destruct (run exact None (sort_txs (Summary.number_from 0 X))) as [ds2 o2] eqn:E2.
  (* the sorted re-run input, read indices erased *)
  assert (EL2 : map erase (sort_txs (Summary.number_from 0 X)) = map erase (GK ++ T)).
  { rewrite number_from_eq, sort_number_is_stable. unfold X. rewrite !map_app.
    rewrite sort_sd_app_sorted.
    - f_equal. unfold rows_after. rewrite (filter_erase (fun z => latest <? z)), (sort_sd_filter (fun z => latest <? z)).
      rewrite ET, (filter_erase (fun z => latest <? z)). f_equal.
      unfold rows. rewrite number_from_eq, sort_number_is_stable, map_erase_number. reflexivity.
    - apply sd_sorted_erase'. exact HsGK.
    - apply Forall_forall. intros a Ha. apply in_map_iff in Ha as (a0 & <- & Ha0).
      apply Forall_forall. intros b Hb. apply in_map_iff in Hb as (b0 & <- & Hb0).
      unfold rows_after in Hb0. apply filter_In in Hb0 as [_ Hb0]. apply Z.ltb_lt in Hb0.
      rewrite Forall_forall in HleGK. specialize (HleGK a0 Ha0). cbn [erase t_sd]. lia. }
  pose proof (run_erase exact None (sort_txs (Summary.number_from 0 X))) as R1. rewrite E2 in R1.
  pose proof (run_erase exact None (GK ++ T)) as R2. rewrite Hrun in R2.
  rewrite EL2, R2 in R1. inversion R1 as [[Eds2 Eo]]. subst o2.
  assert (El : map erase_d (later_deltas latest ds2) = map erase_d dsT).
  { rewrite <- later_deltas_erase, <- Eds2, later_deltas_erase, (later_deltas_split latest dsGK dsT HGK HT). reflexivity. }
  split.
  - rewrite <- (same_reports_erase _ (later_deltas latest ds2)), El, same_reports_erase.
    rewrite Eds, (later_deltas_split latest dsLe dsT HLe HT). apply same_reports_refl.
  - unfold later_obs. rewrite <- (same_reports_erase _ (filter _ (later_deltas latest ds2))), <- filter_erase_d, El, filter_erase_d,
      same_reports_erase.
    rewrite Eds, (later_deltas_split latest dsLe dsT HLe HT). apply same_reports_refl.
Qed.

Definition assemble := assemble_any false.

(* ---------------------------------------------------------------- more cuts *)
Lemma run_part_cut A c l bef st X ds b st' :
  sd_sorted l -> run_part A bef st l X = (ds, b, st', None) ->
  let l1 := filter (fun t => t_sd t <=? c) l in
  let l2 := filter (fun t => c <? t_sd t) l in
  exists ds1 b1 st1 ds2,
    run_part A bef st l1 (l2 ++ X) = (ds1, b1, st1, None) /\ run_part A b1 st1 l2 X = (ds2, b, st', None)
    /\ ds = ds1 ++ ds2 /\ Forall (fun d => d_sd d <= c) ds1 /\ Forall (fun d => c < d_sd d) ds2.
Proof.
  intros Hs H l1 l2. rewrite (sorted_split c l Hs) in H. fold l1 l2 in H. rewrite run_part_app in H.
  destruct (run_part A bef st l1 (l2 ++ X)) as [[[ds1 b1] st1] o1] eqn:E1.
  destruct o1; [discriminate|]. destruct (run_part A b1 st1 l2 X) as [[[ds2 b2] st2] o2] eqn:E2.
  inversion H; subst. exists ds1, b1, st1, ds2.
  split; [reflexivity|]. split; [exact E2|]. split; [reflexivity|]. split.
  - eapply (run_part_sdP A (fun z => z <= c)); [|exact E1].
    unfold l1. apply Forall_forall. intros x Hx. apply filter_In in Hx as [_ Hx]. apply Z.leb_le. exact Hx.
  - eapply (run_part_sdP A (fun z => c < z)); [|exact E2].
    unfold l2. apply Forall_forall. intros x Hx. apply filter_In in Hx as [_ Hx]. apply Z.ltb_lt. exact Hx.
Qed.

Lemma run_part_nil A l : forall bef st X b st', run_part A bef st l X = ([], b, st', None) -> l = [] /\ b = bef /\ st' = st.
Proof.
  destruct l as [|t l]; intros bef st X b st' H; cbn [run_part] in H.
  - inversion H; auto.
  - exfalso. destruct (delta_for_tx A bef t (l ++ X) st) as [[d inj]| |]; try discriminate.
    destruct (set_latest A st (t_af t) (d_post d)) as [st1| |]; try discriminate.
    destruct (run_injected A (t :: bef) st1 inj (l ++ X)) as [[[dsi b1] st2] o1].
    destruct o1; [discriminate|]. destruct (run_part A b1 st2 l X) as [[[ds' b2] st3] o']. discriminate.
Qed.

(* a property of every reported row *)
Section DProp.
  Variable Q : delta -> Prop.
  Hypothesis HQ : forall bef t aft st d inj, delta_for_tx exact bef t aft st = Ok (d, inj) -> Q d.
  Lemma run_injected_dprop inj : forall bef st aft ds b st' o,
    run_injected exact bef st inj aft = (ds, b, st', o) -> Forall Q ds.
  Proof.
    induction inj as [|t inj IH]; intros bef st aft ds b st' o H; cbn [run_injected] in H.
    - inversion H; constructor.
    - destruct (delta_for_tx exact bef t (inj ++ aft) st) as [[d i]| |] eqn:Ed; try (inversion H; constructor).
      destruct (set_latest exact st (t_af t) (d_post d)) as [st1| |]; try (inversion H; constructor).
      destruct (run_injected exact (t :: bef) st1 inj aft) as [[[ds0 b0] s0] o0] eqn:Er.
      inversion H; subst. constructor; [eapply HQ; eassumption | eapply IH; eassumption].
  Qed.
  Lemma run_loop_dprop l : forall bef st ds o, run_loop exact bef st l = (ds, o) -> Forall Q ds.
  Proof.
    induction l as [|t l IH]; intros bef st ds o H; cbn [run_loop] in H.
    - inversion H; constructor.
    - destruct (delta_for_tx exact bef t l st) as [[d inj]| |] eqn:Ed; try (inversion H; constructor).
      destruct (set_latest exact st (t_af t) (d_post d)) as [st1| |]; try (inversion H; constructor).
      destruct (run_injected exact (t :: bef) st1 inj l) as [[[dsi b1] st2] o1] eqn:Ei.
      pose proof (run_injected_dprop _ _ _ _ _ _ _ _ Ei) as Hi. pose proof (HQ _ _ _ _ _ _ Ed) as Hd.
      destruct o1.
      + inversion H; subst. constructor; assumption.
      + destruct (run_loop exact b1 st2 l) as [ds' o'] eqn:Er. inversion H; subst.
        constructor; [exact Hd|]. apply Forall_app. split; [exact Hi | eapply IH; eassumption].
  Qed.
End DProp.

Definition sfl_sell (d : delta) : Prop := d_sfl d <> None -> is_sell (t_act (d_tx d)) = true.
Lemma delta_sfl_sell bef t aft st d inj : delta_for_tx exact bef t aft st = Ok (d, inj) -> sfl_sell d.
Proof. intros H Hn. destruct (delta_for_tx_sfl _ _ _ _ _ _ _ H) as [E Hs]. rewrite E. apply Hs. exact Hn. Qed.

(* ---------------------------------------------------------------- re-emission, once more *)
Lemma keep_all_ok ds : Forall sfl_sell ds -> exists K', keep_all ds = Ok K'.
Proof.
  induction 1 as [|d ds Hd HF IH]; [exists []; reflexivity|]. destruct IH as (K' & E).
  cbn [keep_all]. rewrite E. unfold keep_delta. destruct (d_sfl d) as [i|] eqn:Es.
  - assert (Hn : Some i <> None) by discriminate. unfold sfl_sell in Hd. rewrite Es in Hd. specialize (Hd Hn).
    destruct (t_act (d_tx d)); try discriminate. cbn [bind]. eexists. reflexivity.
  - cbn [bind]. eexists. reflexivity.
Qed.
Lemma keep_all_sim ds : forall K', keep_all ds = Ok K' -> Forall2 (fun k d => row_sim k (d_tx d)) K' ds.
Proof.
  induction ds as [|d ds IH]; intros K' H; cbn [keep_all] in H.
  - inversion H; constructor.
  - bind_as H as k Ek. bind_as H as r Er. inversion H; subst. constructor; [apply keep_delta_sim; exact Ek | apply IH; reflexivity].
Qed.
Lemma respec_glob t sp : t_glob (respec t sp) = t_glob t.
Proof. unfold respec. destruct (t_act t); reflexivity. Qed.
Lemma keep_all_sd ds K' : keep_all ds = Ok K' -> map t_sd K' = map d_sd ds.
Proof.
  intros H. apply keep_all_sim in H. induction H as [|k d K' ds [sp ->] HF IH]; [reflexivity|].
  cbn [map]. rewrite respec_sd, IH. reflexivity.
Qed.
Lemma keep_all_noglob ds K' : keep_all ds = Ok K' -> Forall (fun d => t_glob (d_tx d) = false) ds -> Forall (fun t => t_glob t = false) K'.
Proof.
  intros H. apply keep_all_sim in H. induction H as [|k d K' ds [sp ->] HF IH]; intros Hg; [constructor|].
  apply Forall_cons_iff in Hg as [Hd Hg]. constructor; [rewrite respec_glob; exact Hd | apply IH; exact Hg].
Qed.

Lemma sd_sorted_keys l : StronglySorted Z.le (map t_sd l) -> sd_sorted l.
Proof.
  induction l as [|t l IH]; cbn [map]; intros H; [constructor|].
  apply StronglySorted_inv in H as [H Ht]. constructor; [apply IH; exact H|].
  rewrite Forall_forall in Ht. apply Forall_forall. intros y Hy. apply Ht. apply in_map. exact Hy.
Qed.
Lemma d_sorted_keys l : d_sorted l -> StronglySorted Z.le (map d_sd l).
Proof.
  induction 1 as [|d l H IH Hd]; cbn [map]; [constructor|]. constructor; [exact IH|].
  apply Forall_forall. intros y Hy. apply in_map_iff in Hy as (z & <- & Hz). rewrite Forall_forall in Hd. apply Hd. exact Hz.
Qed.

(* ---------------------------------------------------------------- make_summary, simple mode *)
Lemma summary_ranges_none latest ds : d_sorted ds -> summary_ranges latest ds = None -> cnt_le latest ds = O.
Proof.
  intros Hs H. unfold summary_ranges in H. rewrite lir_eq in H.
  destruct (cnt_le_spec latest ds Hs) as (_ & _ & Hlen).
  destruct (cnt_le latest ds) as [|n]; [reflexivity|]. exfalso. cbn [Nat.add] in H.
  destruct (nth_error ds n) as [dl|] eqn:En.
  - destruct (first_sfl_after n ds); [destruct (_ <=? _)|]; discriminate.
  - apply nth_error_None in En. lia.
Qed.

Lemma make_summary_simple like latest dflt r rg dsP dsK dsT K' :
  let ds := dflt :: r in
  ds = dsP ++ dsK ++ dsT -> summary_ranges latest ds = Some rg ->
  length dsP = first_unsum rg -> length (dsP ++ dsK) = S (rg_latest rg) ->
  keep_all dsK = Ok K' ->
  (forall x, In x (afs_of dsP) -> let d := nth (snd x) ds dflt in
     t_sec (d_tx d) = t_sec like /\ (0 < s_sh (d_post d) -> holding_ok (fst x) (d_post d)))%Qc ->
  summary_afs rg ds = afs_of dsP
  /\ make_summary_parts exact latest ds false
     = Ok (sort_sd (map (hold_tx like) (hs_of ds dflt (afs_of dsP))), K').
Proof.
  intros ds Eds Hrg El1 El2 Hk Hper.
  assert (Eafs : summary_afs rg ds = afs_of dsP).
  { unfold summary_afs, first_unsum in *. destruct (rg_summarizable rg) as [s|].
    - rewrite Eds, firstn_app, <- El1, firstn_all, Nat.sub_diag. cbn [firstn]. rewrite app_nil_r. reflexivity.
    - destruct dsP; [reflexivity | discriminate]. }
  split; [exact Eafs|].
  subst ds. unfold make_summary_parts. rewrite Hrg, Eafs, (per_affiliate_simple like _ dflt (afs_of dsP) Hper).
  cbn [bind].
  assert (Ek : firstn (S (rg_latest rg) - first_unsum rg) (skipn (first_unsum rg) (dflt :: r)) = dsK).
  { rewrite <- El1, <- El2, Eds, skipn_app, skipn_all, Nat.sub_diag. cbn [skipn app].
    rewrite app_length. replace (length dsP + length dsK - length dsP)%nat with (length dsK + 0)%nat by lia.
    rewrite firstn_app_2. cbn [firstn]. apply app_nil_r. }
  rewrite Ek, Hk. cbn [bind]. f_equal. f_equal.
  change (map zero_ri) with (map erase). rewrite number_from_eq, sort_number_is_stable, erase_hold. reflexivity.
Qed.

(* ---------------------------------------------------------------- numbering keeps what does not mention the read index *)
Lemma number_from_In k l x : In x (Summary.number_from k l) -> exists y i, In y l /\ x = set_ri y i.
Proof.
  revert k. induction l as [|y l IH]; intros k H; cbn [Summary.number_from] in H; [destruct H|].
  destruct H as [<-|H].
  - exists y, k. split; [left; reflexivity | reflexivity].
  - destruct (IH _ H) as (z & i & Hz & E). exists z, i. split; [right; exact Hz | exact E].
Qed.
Lemma number_from_Forall (P : tx -> Prop) k l :
  (forall t i, P t -> P (set_ri t i)) -> Forall P l -> Forall P (Summary.number_from k l).
Proof.
  intros HP H. apply Forall_forall. intros x Hx. apply number_from_In in Hx as (y & i & Hy & ->).
  apply HP. rewrite Forall_forall in H. apply H. exact Hy.
Qed.
Lemma Forall_sort_txs (P : tx -> Prop) l : Forall P l -> Forall P (sort_txs l).
Proof. intros H. apply Forall_forall. intros x Hx. apply (proj1 (In_sort_txs _ _)) in Hx. rewrite Forall_forall in H. apply H. exact Hx. Qed.
Lemma Forall_filter {T} (P : T -> Prop) f l : Forall P l -> Forall P (filter f l).
Proof. intros H. apply Forall_forall. intros x Hx. apply filter_In in Hx as [Hx _]. rewrite Forall_forall in H. apply H. exact Hx. Qed.

Lemma K3_of_false latest dflt r rg :
  summary_ranges latest (dflt :: r) = Some rg -> K3_of latest (dflt :: r) = false ->
  forall x, In x (summary_afs rg (dflt :: r)) ->
    let post := d_post (nth (snd x) (dflt :: r) dflt) in
    s_sh post = Q2Qc 0 -> forall c, s_acb post = Some c -> c = Q2Qc 0.
Proof.
  intros Hrg H x Hx post Hz c Hc. unfold K3_of in H. rewrite Hrg in H.
  destruct (Qceqb_spec c 0) as [E|E]; [exact E|]. exfalso.
  match type of H with existsb ?f ?l = false => assert (Ht : existsb f l = true); [|congruence] end.
  apply existsb_exists. exists x. split; [exact Hx|]. fold post.
  rewrite Hz, Hc, Qceqb_refl. cbn [andb]. destruct (Qceqb_spec c 0); [contradiction | reflexivity].
Qed.

Definition like_of (sec : N) : tx :=
  {| t_sec := sec; t_td := 0; t_sd := 0; t_act := Roc 0 0; t_af := default_aff; t_glob := false; t_ri := 0 |}.

(* ---------------------------------------------------------------- the round trip at the model's entry points
   one security, no rows entered for all affiliates, simple mode, any date *)
Theorem roundtrip_single_security regof sec latest rows0 :
  let rows := Summary.number_from 0 rows0 in
  Forall (rowQ regof sec) rows0 -> Forall spec_nz rows0 -> Forall sell_pos rows0 ->
  history_ok exact rows = true ->
  K_summary_buy_in_window exact latest false rows = false ->
  K_zero_balance_acb exact latest rows = false ->
  (forall sums, make_summary exact latest (fst (sec_run exact rows)) false = Ok sums -> through_csv sums = sums) ->
  roundtrip_ok exact latest false rows = true /\ roundtrip_obs_ok exact latest false rows = true.
Proof.
  intros rows HQ0 Hnz0 Hsp0 Hok HK1 HK3 Hcsv.
  assert (HQ : Forall (rowQ regof sec) rows) by (apply number_from_Forall; [intros t i H; exact H | exact HQ0]).
  assert (Hnz : Forall spec_nz rows) by (apply number_from_Forall; [intros t i H; exact H | exact Hnz0]).
  assert (Hsp : Forall sell_pos rows) by (apply number_from_Forall; [intros t i H; exact H | exact Hsp0]).
  assert (Hng0 : Forall (fun t => t_glob t = false) rows0).
  { eapply Forall_impl; [|exact HQ0]. intros x Hx. apply Hx. }
  assert (Hng : Forall (fun t => t_glob t = false) rows).
  { eapply Forall_impl; [|exact HQ]. intros x Hx. apply Hx. }
  set (L := sort_txs rows).
  pose proof (Forall_sort_txs _ _ HQ) as HQL. pose proof (Forall_sort_txs _ _ Hnz) as HnzL.
  pose proof (Forall_sort_txs _ _ Hsp) as HspL. fold L in HQL, HnzL, HspL.
  unfold roundtrip_ok, roundtrip_obs_ok, history_ok, K_summary_buy_in_window, K_zero_balance_acb in *.
  rewrite (sec_run_noglob exact rows Hng) in *. fold L in Hok, HK1, HK3, Hcsv |- *.
  destruct (run exact None L) as [ds o] eqn:Erun. cbn [fst snd] in *. destruct o; [discriminate|].
  rewrite run_None in Erun. fold st0 in Erun.
  assert (HsL : sd_sorted L).
  { apply sd_sorted_erase. unfold L, rows. rewrite number_from_eq, sort_number_is_stable. apply sort_sd_sorted. }
  pose proof (run_loop_sorted exact _ _ _ _ _ HsL Erun) as Hdss.
  pose proof (run_loop_sfl_neg _ _ _ _ _ Erun) as Hneg.
  pose proof (run_loop_rowQ regof sec L [] st0 ds HQL (Forall_nil _) Erun) as HdQ.
  pose proof (run_loop_dprop sfl_sell delta_sfl_sell _ _ _ _ _ Erun) as Hss.
  assert (Hrow : Forall row_ok ds).
  { eapply (run_loop_ok exact); [exact Erun|]. exact (proj2 (proj2 st0_inv2)). }
  destruct (run_cut exact latest L [] st0 ds HsL Erun) as (dsLe & bLe & stLe & dsT & ELe & ET & Eds & HLe & HT).
  set (Lle := filter (fun t => t_sd t <=? latest) L) in *. set (T := filter (fun t => latest <? t_sd t) L) in *.
  assert (HTn : Forall (fun d => ~ d_sd d <= latest) dsT).
  { eapply Forall_impl; [|exact HT]. intros x Hx. cbv beta in Hx. lia. }
  destruct (summary_ranges latest ds) as [rg|] eqn:Erg.
  2: { (* nothing settles on or before the date *)
    pose proof (summary_ranges_none latest ds Hdss Erg) as Ecnt.
    assert (EdsLe : dsLe = []).
    { destruct dsLe as [|x dsLe]; [reflexivity|]. exfalso. rewrite Eds in Ecnt. cbn [app cnt_le] in Ecnt.
      assert (E : latest <? d_sd x = false) by (apply Z.ltb_ge; exact (Forall_inv HLe)). rewrite E in Ecnt. discriminate. }
    subst dsLe. destruct (run_part_nil _ _ _ _ _ _ _ ELe) as (ELle & -> & ->).
    assert (Hms : make_summary exact latest ds false = Ok []).
    { unfold make_summary, make_summary_parts. rewrite Erg. destruct ds; reflexivity. }
    refine (assemble latest rows0 ds [] dsT [] T [] Hng0 eq_refl Hms (Hcsv _ Hms) (Forall_nil _) (SSorted_nil _)
              (Forall_nil _) _ Eds HLe HT (Forall_nil _)).
    cbn [app]. rewrite run_None. fold st0. exact ET. }
  (* the three parts *)
  destruct (summary_ranges_cut latest ds rg Hdss Erg)
    as (dsP & dsK & dsT' & c1 & Eds' & El1 & El2 & _ & Hc1 & HcP & HcK & HcT & Hsfl).
  assert (HPK : Forall (fun d => d_sd d <= latest) (dsP ++ dsK)).
  { apply Forall_app. split.
    - eapply Forall_impl; [|exact HcP]. intros x Hx. cbv beta in Hx. lia.
    - eapply Forall_impl; [|exact HcK]. intros x [_ Hx]. exact Hx. }
  assert (HTn' : Forall (fun d => ~ d_sd d <= latest) dsT').
  { eapply Forall_impl; [|exact HcT]. intros x Hx. cbv beta in Hx. lia. }
  rewrite Eds, app_assoc in Eds'.
  destruct (split_unique (fun d => d_sd d <= latest) _ _ _ _ Eds' HLe HPK HTn HTn') as [-> <-]. clear Eds' HTn'.
  assert (HsLle : sd_sorted Lle) by (apply filter_sorted; exact HsL).
  destruct (run_part_cut exact c1 Lle [] st0 T _ _ _ HsLle ELe) as (ds1 & B1 & st1 & ds2 & EP & EK & E12 & H1 & H2).
  set (P := filter (fun t => t_sd t <=? c1) Lle) in *. set (K := filter (fun t => c1 <? t_sd t) Lle) in *.
  assert (H2n : Forall (fun d => ~ d_sd d <= c1) ds2).
  { eapply Forall_impl; [|exact H2]. intros x Hx. cbv beta in Hx. lia. }
  assert (HKn : Forall (fun d => ~ d_sd d <= c1) dsK).
  { eapply Forall_impl; [|exact HcK]. intros x [Hx _]. lia. }
  destruct (split_unique (fun d => d_sd d <= c1) _ _ _ _ E12 HcP H1 HKn H2n) as [<- <-]. clear E12 H1 H2 H2n.
  assert (EL : P ++ K ++ T = L).
  { rewrite app_assoc. unfold P, K. rewrite <- (sorted_split c1 Lle HsLle). unfold Lle, T. symmetry. apply sorted_split. exact HsL. }
  (* the parts of the reported rows *)
  rewrite Eds, <- app_assoc in HdQ, Hrow, Hss.
  apply Forall_app in HdQ as [HdQP HdQKT]. apply Forall_app in Hrow as [HrowP _].
  apply Forall_app in Hss as [_ HssKT]. apply Forall_app in HssKT as [HssK _].
  assert (HgoodP : Forall (gooddelta regof) dsP).
  { eapply Forall_impl; [|exact HdQP]. intros x Hx. apply Hx. }
  assert (HgoodKT : Forall (gooddelta regof) (dsK ++ dsT)).
  { eapply Forall_impl; [|exact HdQKT]. intros x Hx. apply Hx. }
  assert (Hdne : exists dflt r, ds = dflt :: r).
  { destruct ds as [|dflt r]; [cbn in Erg; discriminate|]. eauto. }
  destruct Hdne as (dflt & r & Edr).
  (* the holdings *)
  pose proof (run_part_obs _ _ _ _ _ _ _ EP) as Hobs1.
  assert (Eafs0 : summary_afs rg ds = afs_of dsP).
  { unfold summary_afs, first_unsum in *. destruct (rg_summarizable rg) as [s|].
    - rewrite Eds, <- app_assoc, firstn_app, <- El1, firstn_all, Nat.sub_diag. cbn [firstn]. rewrite app_nil_r. reflexivity.
    - destruct dsP; [reflexivity | discriminate]. }
  assert (HK3' : forall x, In x (afs_of dsP) -> let post := d_post (nth (snd x) (dsP ++ dsK ++ dsT) dflt) in
             s_sh post = Q2Qc 0 -> forall c, s_acb post = Some c -> c = Q2Qc 0).
  { intros x Hx. rewrite <- Eafs0 in Hx. rewrite Edr in HK3, Erg, Hx.
    pose proof (K3_of_false latest dflt r rg Erg HK3 x Hx) as Hk3. cbv zeta in Hk3 |- *.
    rewrite <- Edr, Eds, <- app_assoc in Hk3. exact Hk3. }
  destruct (holdings_at_cut regof dsP (dsK ++ dsT) dflt st1 Hobs1 HrowP HgoodP HK3')
    as (Hnd & Hhok & Hdated & Hx & Hobs).
  set (hs := hs_of (dsP ++ dsK ++ dsT) dflt (afs_of dsP)) in *.
  set (like := like_of sec).
  destruct (sort_sd_hold like hs) as (hs' & Hperm & Esort).
  assert (Hnd' : NoDup (map (fun h : hold_row => af_id (fst (fst h))) hs')).
  { eapply Permutation_NoDup; [apply Permutation_map; symmetry; exact Hperm | exact Hnd]. }
  assert (Hhok' : Forall (fun h : hold_row => holding_ok (fst (fst h)) (snd (fst h))) hs').
  { eapply Permutation_Forall; [symmetry; exact Hperm | exact Hhok]. }
  assert (Hdated' : Forall (fun h : hold_row => exists d, In d dsP /\ snd h = d_sd d) hs').
  { eapply Permutation_Forall; [symmetry; exact Hperm | exact Hdated]. }
  assert (Hfind : forall af, find_hold hs' af = find_hold hs af).
  { intros af. unfold find_hold.
    destruct (find (fun h : hold_row => N.eqb (af_id (fst (fst h))) (af_id af)) hs) as [h|] eqn:Ef.
    - apply find_some in Ef as [Hin Eid]. apply N.eqb_eq in Eid.
      assert (Hin' : In h hs') by (eapply Permutation_in; [symmetry; exact Hperm | exact Hin]).
      clear -Hnd' Hin' Eid. induction hs' as [|y l IH]; [destruct Hin'|]. cbn [find].
      apply NoDup_cons_iff in Hnd' as [Hni Hnd']. cbn [map] in Hni.
      destruct Hin' as [->|Hin'].
      + rewrite Eid, N.eqb_refl. reflexivity.
      + destruct (N.eqb_spec (af_id (fst (fst y))) (af_id af)) as [E|_]; [|apply IH; assumption].
        exfalso. apply Hni. apply in_map_iff. exists h. split; [congruence | exact Hin'].
    - destruct (find (fun h : hold_row => N.eqb (af_id (fst (fst h))) (af_id af)) hs') as [h|] eqn:Ef'; [|reflexivity].
      apply find_some in Ef' as [Hin Eid]. exfalso.
      assert (Hin0 : In h hs) by (eapply Permutation_in; [exact Hperm | exact Hin]).
      rewrite (find_none _ _ Ef h Hin0) in Eid. discriminate. }
  assert (Hobs' : forall af, goodaf regof af -> obs st1 af = held_obs hs' af (Q2Qc 0, if af_reg af then None else Some (Q2Qc 0))).
  { intros af Hg. rewrite (Hobs af Hg). unfold held_obs. rewrite Hfind. reflexivity. }
  assert (Hpos' : Forall (fun h : hold_row => (0 < s_sh (snd (fst h)))%Qc) hs').
  { eapply Forall_impl; [|exact Hhok']. intros h [Hp _]. exact Hp. }
  pose proof (total_from_obs regof st1 hs' (run_part_inv2 _ _ _ _ _ _ _ EP st0_inv2) Hnd' Hpos' Hobs') as Htot.
  destruct (keep_all_ok dsK HssK) as (K' & Hk).
  (* outside K_summary_buy_in_window *)
  assert (Hper : forall x, In x (afs_of dsP) -> let d := nth (snd x) (dflt :: r) dflt in
             t_sec (d_tx d) = t_sec like /\ ((0 < s_sh (d_post d))%Qc -> holding_ok (fst x) (d_post d))).
  { intros x Hxin. rewrite <- Edr, Eds, <- app_assoc. destruct (Hx x Hxin) as [Hin Hho]. split; [|exact Hho].
    rewrite Forall_forall in HdQP. destruct (HdQP _ Hin) as (_ & Hsec & _). exact Hsec. }
  assert (Eds3 : dflt :: r = dsP ++ dsK ++ dsT) by (rewrite <- Edr, Eds, <- app_assoc; reflexivity).
  rewrite Edr in Erg.
  destruct (make_summary_simple like latest dflt r rg dsP dsK dsT K' Eds3 Erg El1 El2 Hk Hper) as [_ Hparts].
  rewrite Eds3 in Hparts at 2. fold hs in Hparts. rewrite Esort in Hparts.
  assert (HK1' : forall h d, In h hs' -> In d (dsK ++ dsT) -> plain_loss_sell d = true -> within_after (snd h) (d_sd d) = false).
  { intros h d Hh Hd Hp. rewrite Edr in HK1.
    assert (Hsk : In d (skipn (first_unsum rg) (dflt :: r))).
    { rewrite Eds3, <- El1, skipn_app, skipn_all, Nat.sub_diag. exact Hd. }
    pose proof (K1_of_false exact latest false (dflt :: r) rg _ _ Erg Hparts HK1 (hold_tx like h) d
                  (in_map _ _ _ Hh) ltac:(destruct h as [[a s] dt]; reflexivity) Hsk Hp) as Hw.
    destruct h as [[a s] dt]. exact Hw. }
  assert (HsPKT : sd_sorted (P ++ K ++ T)) by (rewrite EL; exact HsL).
  assert (HnzKT : Forall spec_nz (K ++ T)).
  { apply Forall_app. split; [unfold K, Lle | unfold T]; repeat apply Forall_filter; exact HnzL. }
  assert (HspK : Forall sell_pos (K ++ T)).
  { apply Forall_app. split; [unfold K, Lle | unfold T]; repeat apply Forall_filter; exact HspL. }
  rewrite <- Edr in Erg. rewrite Eds, <- app_assoc in Erg.
  destruct (roundtrip_ranges regof like hs' latest rg P K T dsP B1 st1 dsK bLe stLe dsT K'
              HsPKT EP EK ET Erg El1 El2 Hnd' Hhok' Htot Hobs' HgoodKT Hdated' HK1' Hk HnzKT HspK)
    as (dsG & dsK' & Erun2 & _ & _ & _ & Hsd).
  (* assemble *)
  set (G := map (hold_tx like) hs') in *.
  assert (HGle : Forall (fun t => t_sd t <= c1) G).
  { unfold G. apply Forall_map. apply Forall_forall. intros [[a s] dt] Hh.
    rewrite Forall_forall in Hdated'. destruct (Hdated' _ Hh) as (d & Hd & Hdt). cbn [snd] in Hdt.
    cbn [hold_tx summary_buy mk_tx t_sd]. rewrite Hdt. rewrite Forall_forall in HcP. apply HcP. exact Hd. }
  pose proof (keep_all_sd _ _ Hk) as EsdK.
  assert (HK'sd : Forall (fun t => c1 < t_sd t /\ t_sd t <= latest) K').
  { apply Forall_forall. intros t Ht. apply (in_map t_sd) in Ht. rewrite EsdK in Ht.
    apply in_map_iff in Ht as (d & <- & Hd). rewrite Forall_forall in HcK. apply HcK. exact Hd. }
  assert (HGKle : Forall (fun t => t_sd t <= latest) (G ++ K')).
  { apply Forall_app. split.
    - eapply Forall_impl; [|exact HGle]. intros x Hxx. cbv beta in Hxx. lia.
    - eapply Forall_impl; [|exact HK'sd]. intros x [_ Hxx]. exact Hxx. }
  assert (Hms : make_summary exact latest ds false = Ok (G ++ K')).
  { unfold make_summary. rewrite Edr, Hparts. reflexivity. }
  rewrite app_assoc in Erun2. rewrite (app_assoc dsG dsK' dsT) in Erun2.
  assert (Eds4 : ds = (dsP ++ dsK) ++ dsT) by (rewrite Eds, <- app_assoc; reflexivity).
  refine (assemble latest rows0 ds (dsP ++ dsK) dsT (G ++ K') T (dsG ++ dsK') Hng0 eq_refl Hms (Hcsv _ Hms) _ _ HGKle
            Erun2 Eds4 HPK HT _).
  - apply Forall_app. split.
    + unfold G. apply Forall_map. apply Forall_forall. intros [[a s] dt] _. reflexivity.
    + eapply keep_all_noglob; [exact Hk|]. apply Forall_app in HdQKT as [HdQK _].
      eapply Forall_impl; [|exact HdQK]. intros x Hxx. apply Hxx.
  - apply ss_app.
    + rewrite <- Esort. apply sort_sd_sorted.
    + apply sd_sorted_keys. rewrite EsdK. apply d_sorted_keys.
      rewrite Eds, <- app_assoc in Hdss. apply ss_app_inv in Hdss as (_ & Hdss & _).
      apply ss_app_inv in Hdss as (Hdss & _). exact Hdss.
    + eapply Forall_impl; [|exact HGle]. intros x Hxx. cbv beta in Hxx.
      eapply Forall_impl; [|exact HK'sd]. intros y [Hy _]. lia.
  - eapply Forall_impl; [|exact Hsd]. intros d (g & Hg & ->).
    rewrite Forall_forall in HGKle. apply HGKle. exact Hg.
Qed.
