(* C10, annual mode AT THE MODEL'S ENTRY POINTS (sec_run, make_summary,
   roundtrip_of): one security, no rows entered for all affiliates, any date.
   Same route as C10Entry.roundtrip_single_security; the generated rows are
   those of C10AnnualRows, run by C10AnnualRun.roundtrip_annual_kept. *)
From Coq Require Import List NArith ZArith QArith Qcanon Bool Lia Sorted Permutation.
From ACB Require Import Base.Outcome Base.QcExtra Base.Arith Model.Tx Model.Ledger Model.Sfl
     Model.DeltaList Model.App Model.Gains Model.Summary Model.SummaryObs Model.SummaryApp Proofs.Tactics Proofs.C15Full Proofs.C04Sum
     Proofs.C04Inv Proofs.C04Reject Proofs.RenderProps Proofs.C01Refine Proofs.EraseRi Proofs.SortLayout
     Proofs.C16App Proofs.SummaryProps
     Proofs.C10Scan Proofs.C10Sim Proofs.C10Ranges Proofs.C10Cut Proofs.C10Roundtrip Proofs.C10Window Proofs.C10Holdings
     Proofs.C10Entry Proofs.C10Annual Proofs.C10AnnualRun Proofs.C10Calendar Proofs.C10AnnualRows.
Import ListNotations.
Local Open Scope Z_scope.

Lemma In_firstn {T} n (l : list T) x : In x (firstn n l) -> In x l.
Proof.
  revert l. induction n as [|n IH]; intros [|y l] H; cbn [firstn] in H; try destruct H as [H|H]; try contradiction.
  - left. exact H.
  - right. apply IH. exact H.
Qed.

Lemma run_loop_head bef st t l ds :
  run_loop exact bef st (t :: l) = (ds, None) -> exists d ds', ds = d :: ds' /\ d_sd d = t_sd t.
Proof.
  cbn [run_loop]. intros H.
  destruct (delta_for_tx exact bef t l st) as [[d inj]| |] eqn:Ed; try discriminate.
  destruct (set_latest exact st (t_af t) (d_post d)) as [st1| |]; try discriminate.
  destruct (run_injected exact (t :: bef) st1 inj l) as [[[dsi b1] st2] o1].
  destruct o1; [discriminate|]. destruct (run_loop exact b1 st2 l) as [ds' o'].
  inversion H; subst. eexists. eexists. split; [reflexivity|]. unfold d_sd. rewrite (delta_tx_eq _ _ _ _ _ _ _ Ed). reflexivity.
Qed.

Lemma find_by_id (afs : list (aff * nat)) x : NoDup (map aid afs) -> In x afs ->
  forall id, id = aid x -> find (fun y => N.eqb (aid y) id) afs = Some x.
Proof.
  intros Hnd Hx id ->. induction afs as [|y afs IH]; [destruct Hx|]. cbn [find].
  apply NoDup_cons_iff in Hnd as [Hni Hnd]. destruct Hx as [->|Hx].
  - rewrite N.eqb_refl. reflexivity.
  - destruct (N.eqb_spec (aid y) (aid x)) as [E|_]; [|apply IH; assumption].
    exfalso. apply Hni. rewrite E. apply in_map. exact Hx.
Qed.

(* outside the strong annual class *)
Lemma K2s_of_false A latest annual ds rg gen kept :
  summary_ranges latest ds = Some rg -> make_summary_parts A latest ds annual = Ok (gen, kept) ->
  K2s_of A latest annual ds = false ->
  forall g d, In g gen -> gen_loss_sell g = true -> In d (skipn (first_unsum rg) ds) ->
              within_after (t_sd g) (d_sd d) = false.
Proof.
  intros Hr Hm HK g d Hg Hb Hd. unfold K2s_of in HK. rewrite Hr, Hm in HK.
  destruct (within_after (t_sd g) (d_sd d)) eqn:E; [|reflexivity]. exfalso.
  assert (Ht : existsb (fun s => gen_loss_sell s
                 && existsb (fun d0 => within_after (t_sd s) (d_sd d0)) (skipn (first_unsum rg) ds)) gen = true); [|congruence].
  apply existsb_exists. exists g. split; [exact Hg|]. rewrite Hb. cbn [andb].
  apply existsb_exists. exists d. split; [exact Hd | exact E].
Qed.

(* the two totals *)
Local Open Scope Qc_scope.
Lemma total_held_app a b : total_held (a ++ b) = total_held a + total_held b.
Proof. induction a as [|h a IH]; cbn [app total_held]; [ring|]. rewrite IH. ring. Qed.
Lemma tot_sh_hs_of ds dflt afs : (forall x, In x afs -> 0 <= x_sh ds dflt x) ->
  tot_sh (flat_map (x_hl ds dflt) afs) = total_held (hs_of ds dflt afs).
Proof.
  induction afs as [|x afs IH]; intros H; [reflexivity|]. cbn [flat_map hs_of]. fold (hs_of ds dflt afs).
  rewrite tot_sh_app, total_held_app, IH by (intros y Hy; apply H; right; exact Hy). f_equal.
  pose proof (H x (or_introl eq_refl)) as Hx. unfold x_hl, x_h, x_sh, x_d in *. cbn [ah_n].
  pose proof (qn_nonneg (length (x_ys ds x))) as Hq.
  destruct (Qcltb_spec 0 (s_sh (d_post (nth (snd x) ds dflt)) + qn (length (x_ys ds x)))) as [Hn|Hn];
    destruct (Qcltb_spec 0 (s_sh (d_post (nth (snd x) ds dflt)))) as [Hp|Hp]; cbn [tot_sh total_held ah_sh fst snd]; try ring.
  - assert (E : s_sh (d_post (nth (snd x) ds dflt)) = 0) by (apply Qcle_antisym; [apply Qcnot_lt_le; exact Hp | exact Hx]). rewrite E. ring.
  - exfalso. qc_lra.
Qed.
Local Open Scope Z_scope.

Theorem roundtrip_annual_single_security regof sec latest rows0 :
  let rows := Summary.number_from 0 rows0 in
  Forall (rowQ regof sec) rows0 -> Forall spec_nz rows0 -> Forall sell_pos rows0 ->
  history_ok exact rows = true ->
  K_annual_row_in_window exact latest true rows = false ->
  K_zero_balance_acb exact latest rows = false ->
  (forall sums, make_summary exact latest (fst (sec_run exact rows)) true = Ok sums -> through_csv sums = sums) ->
  roundtrip_ok exact latest true rows = true /\ roundtrip_obs_ok exact latest true rows = true.
Proof.
  intros rows HQ0 Hnz0 Hsp0 Hok HK2 HK3 Hcsv.
  assert (HQ : Forall (rowQ regof sec) rows) by (apply number_from_Forall; [intros t i H; exact H | exact HQ0]).
  assert (Hnz : Forall spec_nz rows) by (apply number_from_Forall; [intros t i H; exact H | exact Hnz0]).
  assert (Hsp : Forall sell_pos rows) by (apply number_from_Forall; [intros t i H; exact H | exact Hsp0]).
  assert (Hng0 : Forall (fun t => t_glob t = false) rows0).
  { eapply Forall_impl; [|exact HQ0]. intros x Hx. apply Hx. }
  assert (Hng : Forall (fun t => t_glob t = false) rows).
  { eapply Forall_impl; [|exact HQ]. intros x Hx. apply Hx. }
  set (L := sort_txs rows).
  pose proof (Forall_sort_txs _ _ HQ) as HQL. pose proof (Forall_sort_txs _ _ Hnz) as HnzL.
  pose proof (Forall_sort_txs _ _ Hsp) as HspL. fold L in HQL, HnzL, HspL.
  unfold roundtrip_ok, roundtrip_obs_ok, history_ok, K_annual_row_in_window, K_zero_balance_acb in *.
  rewrite (sec_run_noglob exact rows Hng) in *. fold L in Hok, HK2, HK3, Hcsv |- *.
  destruct (run exact None L) as [ds o] eqn:Erun. cbn [fst snd] in *. destruct o; [discriminate|].
  rewrite run_None in Erun. fold st0 in Erun.
  assert (HsL : sd_sorted L).
  { apply sd_sorted_erase. unfold L, rows. rewrite number_from_eq, sort_number_is_stable. apply sort_sd_sorted. }
  pose proof (run_loop_sorted exact _ _ _ _ _ HsL Erun) as Hdss.
  pose proof (run_loop_sfl_neg _ _ _ _ _ Erun) as Hneg.
  pose proof (run_loop_rowQ regof sec L [] st0 ds HQL (Forall_nil _) Erun) as HdQ.
  pose proof (run_loop_dprop sfl_sell delta_sfl_sell _ _ _ _ _ Erun) as Hss.
  assert (Hrow : Forall row_ok ds).
  { eapply (run_loop_ok exact); [exact Erun|]. exact (proj2 (proj2 st0_inv2)). }
  destruct (run_cut exact latest L [] st0 ds HsL Erun) as (dsLe & bLe & stLe & dsT & ELe & ET & Eds & HLe & HT).
  set (Lle := filter (fun t => t_sd t <=? latest) L) in *. set (T := filter (fun t => latest <? t_sd t) L) in *.
  assert (HTn : Forall (fun d => ~ d_sd d <= latest) dsT).
  { eapply Forall_impl; [|exact HT]. intros x Hx. cbv beta in Hx. lia. }
  destruct (summary_ranges latest ds) as [rg|] eqn:Erg.
  2: { (* nothing settles on or before the date *)
    pose proof (summary_ranges_none latest ds Hdss Erg) as Ecnt.
    assert (EdsLe : dsLe = []).
    { destruct dsLe as [|x dsLe]; [reflexivity|]. exfalso. rewrite Eds in Ecnt. cbn [app cnt_le] in Ecnt.
      assert (E : latest <? d_sd x = false) by (apply Z.ltb_ge; exact (Forall_inv HLe)). rewrite E in Ecnt. discriminate. }
    subst dsLe. destruct (run_part_nil _ _ _ _ _ _ _ ELe) as (ELle & -> & ->).
    assert (Hms : make_summary exact latest ds true = Ok []).
    { unfold make_summary, make_summary_parts. rewrite Erg. destruct ds; reflexivity. }
    refine (assemble_any true latest rows0 ds [] dsT [] T [] Hng0 eq_refl Hms (Hcsv _ Hms) (Forall_nil _) (SSorted_nil _)
              (Forall_nil _) _ Eds HLe HT (Forall_nil _)).
    cbn [app]. rewrite run_None. fold st0. exact ET. }
  (* the three parts *)
  destruct (summary_ranges_cut latest ds rg Hdss Erg)
    as (dsP & dsK & dsT' & c1 & Eds' & El1 & El2 & _ & Hc1 & HcP & HcK & HcT & Hsfl).
  assert (HPK : Forall (fun d => d_sd d <= latest) (dsP ++ dsK)).
  { apply Forall_app. split.
    - eapply Forall_impl; [|exact HcP]. intros x Hx. cbv beta in Hx. lia.
    - eapply Forall_impl; [|exact HcK]. intros x [_ Hx]. exact Hx. }
  assert (HTn' : Forall (fun d => ~ d_sd d <= latest) dsT').
  { eapply Forall_impl; [|exact HcT]. intros x Hx. cbv beta in Hx. lia. }
  rewrite Eds, app_assoc in Eds'.
  destruct (split_unique (fun d => d_sd d <= latest) _ _ _ _ Eds' HLe HPK HTn HTn') as [-> <-]. clear Eds' HTn'.
  assert (HsLle : sd_sorted Lle) by (apply filter_sorted; exact HsL).
  destruct (run_part_cut exact c1 Lle [] st0 T _ _ _ HsLle ELe) as (ds1 & B1 & st1 & ds2 & EP & EK & E12 & H1 & H2).
  set (P := filter (fun t => t_sd t <=? c1) Lle) in *. set (K := filter (fun t => c1 <? t_sd t) Lle) in *.
  assert (H2n : Forall (fun d => ~ d_sd d <= c1) ds2).
  { eapply Forall_impl; [|exact H2]. intros x Hx. cbv beta in Hx. lia. }
  assert (HKn : Forall (fun d => ~ d_sd d <= c1) dsK).
  { eapply Forall_impl; [|exact HcK]. intros x [Hx _]. lia. }
  destruct (split_unique (fun d => d_sd d <= c1) _ _ _ _ E12 HcP H1 HKn H2n) as [<- <-]. clear E12 H1 H2 H2n.
  (* the parts of the reported rows *)
  rewrite Eds, <- app_assoc in HdQ, Hrow, Hss, Hneg.
  apply Forall_app in HdQ as [HdQP HdQKT]. apply Forall_app in Hrow as [HrowP _].
  apply Forall_app in Hss as [_ HssKT]. apply Forall_app in HssKT as [HssK _].
  apply Forall_app in Hneg as [_ HnegKT].
  assert (HgoodP : Forall (gooddelta regof) dsP).
  { eapply Forall_impl; [|exact HdQP]. intros x Hx. apply Hx. }
  assert (HgoodKT : Forall (gooddelta regof) (dsK ++ dsT)).
  { eapply Forall_impl; [|exact HdQKT]. intros x Hx. apply Hx. }
  assert (Hdne : exists dflt r, ds = dflt :: r).
  { destruct ds as [|dflt r]; [cbn in Erg; discriminate|]. eauto. }
  destruct Hdne as (dflt & r & Edr).
  (* the holdings of the simple mode: total and observations *)
  pose proof (run_part_obs _ _ _ _ _ _ _ EP) as Hobs1.
  assert (Eafs0 : summary_afs rg ds = afs_of dsP).
  { unfold summary_afs, first_unsum in *. destruct (rg_summarizable rg) as [s|].
    - rewrite Eds, <- app_assoc, firstn_app, <- El1, firstn_all, Nat.sub_diag. cbn [firstn]. rewrite app_nil_r. reflexivity.
    - destruct dsP; [reflexivity | discriminate]. }
  assert (HK3' : forall x, In x (afs_of dsP) -> let post := d_post (nth (snd x) (dsP ++ dsK ++ dsT) dflt) in
             s_sh post = Q2Qc 0 -> forall c, s_acb post = Some c -> c = Q2Qc 0).
  { intros x Hx. rewrite <- Eafs0 in Hx. rewrite Edr in HK3, Erg, Hx.
    pose proof (K3_of_false latest dflt r rg Erg HK3 x Hx) as Hk3. cbv zeta in Hk3 |- *.
    rewrite <- Edr, Eds, <- app_assoc in Hk3. exact Hk3. }
  destruct (holdings_at_cut regof dsP (dsK ++ dsT) dflt st1 Hobs1 HrowP HgoodP HK3')
    as (HndS & HhokS & _ & _ & HobsS).
  set (ds3 := dsP ++ dsK ++ dsT) in *.
  set (hsS := hs_of ds3 dflt (afs_of dsP)) in *.
  assert (HposS : Forall (fun h : hold_row => (0 < s_sh (snd (fst h)))%Qc) hsS).
  { eapply Forall_impl; [|exact HhokS]. intros h [Hp _]. exact Hp. }
  pose proof (total_from_obs regof st1 hsS (run_part_inv2 _ _ _ _ _ _ _ EP st0_inv2) HndS HposS HobsS) as HtotS.
  assert (Eds3 : dflt :: r = ds3) by (unfold ds3; rewrite <- Edr, Eds, <- app_assoc; reflexivity).
  (* the affiliates of the summary *)
  set (afs := afs_of dsP) in *.
  destruct (afs_of_spec dsP) as (Hndafs & Hspec & _). fold afs in Hndafs, Hspec.
  change (map (fun x : aff * nat => af_id (fst x)) afs) with (map aid afs) in Hndafs.
  set (like := like_of sec).
  set (d0 := jan1 (year_of_day (d_sd (nth 0 ds3 dflt)) - 1)).
  assert (HxA : forall x, In x afs -> In (x_d ds3 dflt x) dsP /\ fst x = t_af (d_tx (x_d ds3 dflt x)) /\ (snd x < length dsP)%nat).
  { intros [af i] Hin. destruct (Hspec af i Hin) as (d & Hn & Haf & _). unfold x_d. cbn [fst snd].
    assert (Hlt : (i < length dsP)%nat) by (apply nth_error_Some; congruence).
    unfold ds3. rewrite app_nth1 by exact Hlt. rewrite (nth_error_nth _ _ dflt Hn).
    split; [eapply nth_error_In; exact Hn|]. split; [exact Haf | exact Hlt]. }
  assert (Hgoodx : forall x, In x afs -> x_good like ds3 dflt x).
  { intros x Hin. destruct (HxA x Hin) as (Hd & Haf & _).
    rewrite Forall_forall in HdQP, HrowP. destruct (HdQP _ Hd) as (_ & Hsec & _).
    destruct (HrowP _ Hd) as ((Hsh & _ & Hacb) & Hr1 & Hr2). rewrite <- Haf in Hr1, Hr2.
    split; [exact Hsec|]. split; [exact Hsh|]. split.
    - intros Er. apply (Hr1 Er).
    - intros Er. specialize (Hr2 Er). destruct (s_acb (d_post (x_d ds3 dflt x))) as [c|] eqn:Ec; [|contradiction].
      exists c. split; [reflexivity|]. apply Hacb. reflexivity. }
  assert (Hsorted0 : Forall (fun d => d_sd dflt <= d_sd d) ds3).
  { rewrite <- Eds3. rewrite Edr in Hdss. apply StronglySorted_inv in Hdss as [_ Hd]. constructor; [lia | exact Hd]. }
  assert (Hnth0 : nth 0 ds3 dflt = dflt) by (rewrite <- Eds3; reflexivity).
  assert (Hyears : forall x, In x afs -> NoDup (map fst (x_ys ds3 x))
             /\ forall yg0, In yg0 (x_ys ds3 x) -> exists d', In d' dsP /\ fst yg0 = year_of_day (d_sd d')).
  { intros x Hin. destruct (HxA x Hin) as (_ & _ & Hlt). unfold x_ys. destruct (af_reg (fst x)); [split; [constructor | intros ? []]|].
    destruct (yg_keys (fst x) (firstn (S (snd x)) ds3) [] (NoDup_nil _)) as [I1 I2]. split.
    - eapply Permutation_NoDup; [apply Permutation_map; symmetry; apply sort_years_perm | exact I1].
    - intros yg0 Hy. apply (Permutation_in _ (sort_years_perm _)) in Hy. apply (in_map fst) in Hy.
      destruct (I2 _ Hy) as [[]|(d' & Hd' & E)]. exists d'. split; [|exact E].
      unfold ds3 in Hd'. rewrite firstn_app in Hd'. replace (S (snd x) - length dsP)%nat with O in Hd' by lia.
      rewrite firstn_O, app_nil_r in Hd'. apply (In_firstn (S (snd x))). exact Hd'. }
  set (gens := flat_map (x_gen ds3 dflt) afs).
  set (hsA := flat_map (x_hl ds3 dflt) afs).
  set (S0 := flat_map (x_sells ds3 dflt) afs).
  (* every generated sale: its date *)
  assert (Hd0fy : d0 + 365 <= d_sd dflt).
  { unfold d0. rewrite Hnth0. pose proof (jan1_next (year_of_day (d_sd dflt) - 1)) as H1.
    replace (year_of_day (d_sd dflt) - 1 + 1) with (year_of_day (d_sd dflt)) in H1 by lia.
    pose proof (year_civil (d_sd dflt)) as [H2 _]. lia. }
  assert (HS0 : forall s, In s S0 -> is_jan1 s /\ d0 + 365 <= as_date s /\ as_date s <= c1).
  { intros s Hs. apply in_sells in Hs as (x & yg0 & Hx & Hy & ->). destruct (Hyears x Hx) as [_ Hyr].
    destruct (Hyr _ Hy) as (d' & Hd' & E). cbn [ysell as_date]. rewrite E.
    split; [eexists; reflexivity|]. rewrite Forall_forall in HcP, Hsorted0.
    pose proof (HcP _ Hd') as Hc. assert (Hin3 : In d' ds3) by (unfold ds3; apply in_or_app; left; exact Hd').
    pose proof (Hsorted0 _ Hin3) as Hge. pose proof (year_mono _ _ Hge) as Hm. pose proof (jan1_le _ _ Hm) as Hj.
    pose proof (year_civil (d_sd d')) as [Hcv _]. pose proof (year_civil (d_sd dflt)) as [Hcv0 _].
    unfold d0. rewrite Hnth0. pose proof (jan1_next (year_of_day (d_sd dflt) - 1)) as H1.
    replace (year_of_day (d_sd dflt) - 1 + 1) with (year_of_day (d_sd dflt)) in H1 by lia. lia. }
  set (S1 := sort_as S0).
  assert (HS1 : forall s, In s S1 -> In s S0).
  { intros s Hs. eapply Permutation_in; [apply sort_as_perm | exact Hs]. }
  (* what make_summary produces *)
  destruct (keep_all_ok dsK HssK) as (K' & Hk).
  assert (Hparts : make_summary_parts exact latest (dflt :: r) true
                   = Ok (map (abuy_tx like d0) hsA ++ map (asell_tx like) S1, K')).
  { unfold make_summary_parts. rewrite <- Edr, Erg, Eafs0. fold afs. rewrite Edr, Eds3.
    rewrite (per_affiliate_annual like ds3 dflt d0 eq_refl afs Hgoodx). cbn [bind].
    assert (Ek : firstn (S (rg_latest rg) - first_unsum rg) (skipn (first_unsum rg) ds3) = dsK).
    { rewrite <- El1, <- El2. unfold ds3. rewrite skipn_app, skipn_all, Nat.sub_diag. cbn [skipn app].
      rewrite app_length. replace (length dsP + length dsK - length dsP)%nat with (length dsK + 0)%nat by lia.
      rewrite firstn_app_2. cbn [firstn]. apply app_nil_r. }
    rewrite Ek, Hk. cbn [bind]. f_equal. f_equal.
    change (map zero_ri) with (map erase). rewrite number_from_eq, sort_number_is_stable, erase_gen.
    fold gens. rewrite (sort_sd_gen like d0 gens).
    - unfold gens. rewrite lefts_gen, rights_gen. reflexivity.
    - unfold gens. rewrite rights_gen. apply Forall_forall. intros s Hs. destruct (HS0 s Hs) as (_ & H1 & _). lia. }
  assert (Hms : make_summary exact latest ds true = Ok ((map (abuy_tx like d0) hsA ++ map (asell_tx like) S1) ++ K')).
  { unfold make_summary. rewrite Edr, Hparts. reflexivity. }
  (* the holdings *)
  assert (HinA : forall h, In h hsA -> exists x, In x afs /\ (0 < ah_n (x_h ds3 dflt x))%Qc /\ h = x_h ds3 dflt x).
  { intros h Hh. apply in_hl. exact Hh. }
  assert (HndA : NoDup (map (fun h => af_id (ah_af h)) hsA)) by (apply nodup_hl; exact Hndafs).
  assert (HokA : Forall ah_ok hsA).
  { apply Forall_forall. intros h Hh. destruct (HinA h Hh) as (x & Hx & Hn & ->). destruct (Hgoodx x Hx) as (_ & Hsh & Hr1 & Hr2).
    split; [exact Hsh|]. split; [exact Hn|]. cbn [x_h ah_aps ah_af].
    destruct (af_reg (fst x)) eqn:Er.
    - rewrite (Hr1 eq_refl). reflexivity.
    - destruct (Hr2 eq_refl) as (c & Hc & Hc0). rewrite Hc. split; [reflexivity|]. unfold x_apsv. rewrite Hc.
      destruct (Qcltb_spec 0 (x_sh ds3 dflt x)) as [Hp|_]; [apply Qcdiv_nonneg; assumption | apply Qcle_refl]. }
  assert (HnA : forall h, In h hsA -> ah_n h = (ah_sh h + qn (cnt (af_id (ah_af h)) S1))%Qc).
  { intros h Hh. destruct (HinA h Hh) as (x & Hx & _ & ->). cbn [x_h ah_n ah_sh ah_af].
    rewrite (cnt_perm _ _ _ (sort_as_perm S0)). change (af_id (fst x)) with (aid x).
    unfold S0. rewrite (cnt_gen ds3 dflt afs Hndafs x Hx). reflexivity. }
  assert (HtotA : ps_all st1 = tot_sh hsA).
  { rewrite HtotS. symmetry. apply tot_sh_hs_of. intros x Hx. apply (Hgoodx x Hx). }
  assert (HobsA : forall af, goodaf regof af ->
             obs st1 af = obs_hs hsA af ah_sh (Q2Qc 0, if af_reg af then None else Some (Q2Qc 0))).
  { intros af Hg. rewrite (HobsS af Hg). unfold held_obs, obs_hs, hsS, hsA.
    rewrite (find_hold_hs_of ds3 dflt afs Hndafs af), (find_ah_gen ds3 dflt afs Hndafs af).
    change (fun x : aff * nat => N.eqb (af_id (fst x)) (af_id af)) with (fun x : aff * nat => N.eqb (aid x) (af_id af)).
    destruct (find (fun x : aff * nat => N.eqb (aid x) (af_id af)) afs) as [x|] eqn:Ef; [|reflexivity].
    apply find_some in Ef as [Hx Eid]. apply N.eqb_eq in Eid.
    destruct (Hgoodx x Hx) as (_ & Hsh & Hr1 & Hr2). destruct (HxA x Hx) as (Hd & Haf & _).
    assert (Hreg : af_reg af = af_reg (fst x)).
    { rewrite Forall_forall in HgoodP. specialize (HgoodP _ Hd). unfold gooddelta, goodtx, goodaf in *.
      rewrite Hg, Haf, HgoodP, <- Haf. unfold aid in Eid. rewrite Eid. reflexivity. }
    cbv zeta. fold (x_d ds3 dflt x). fold (x_sh ds3 dflt x). unfold ah_obs. cbn [x_h ah_n ah_sh ah_aps].
    pose proof (qn_nonneg (length (x_ys ds3 x))) as Hq.
    destruct (Qcltb_spec 0 (x_sh ds3 dflt x)) as [Hp|Hp].
    - destruct (Qcltb_spec 0 (x_sh ds3 dflt x + qn (length (x_ys ds3 x)))%Qc) as [_|Hn]; [|exfalso; qc_lra].
      cbn [fst snd x_h ah_sh ah_aps]. f_equal; try reflexivity.
      destruct (s_acb (d_post (x_d ds3 dflt x))) as [c|] eqn:Ec; [|reflexivity]. cbn [option_map]. f_equal.
      unfold x_apsv. rewrite Ec. destruct (Qcltb_spec 0 (x_sh ds3 dflt x)) as [_|Hc]; [|contradiction].
      field. apply Qclt_not_eq'. exact Hp.
    - assert (Ez : x_sh ds3 dflt x = Q2Qc 0) by (apply Qcle_antisym; [apply Qcnot_lt_le; exact Hp | exact Hsh]).
      destruct (Qcltb_spec 0 (x_sh ds3 dflt x + qn (length (x_ys ds3 x)))%Qc) as [Hn|_]; [|reflexivity].
      cbn [fst snd x_h ah_sh ah_aps]. rewrite Hreg. f_equal; [symmetry; exact Ez|].
      destruct (af_reg (fst x)) eqn:Er.
      + rewrite (Hr1 eq_refl). reflexivity.
      + destruct (Hr2 eq_refl) as (c & Hc & _). rewrite Hc. cbn [option_map]. f_equal. unfold x_apsv. rewrite Hc.
        destruct (Qcltb_spec 0 (x_sh ds3 dflt x)) as [Hc'|_]; [contradiction|]. rewrite Ez. ring. }
  (* the sales *)
  assert (HsortS : StronglySorted (fun a b => in_gap (as_date a) b) S1).
  { apply in_gap_sorted; [apply sort_as_sorted|]. apply Forall_forall. intros s Hs. apply (HS0 s (HS1 s Hs)). }
  assert (HndkS : NoDup (map akey S1)).
  { eapply Permutation_NoDup; [apply Permutation_map; symmetry; apply sort_as_perm|].
    apply nodup_akey; [exact Hndafs|]. intros x Hx. apply (Hyears x Hx). }
  assert (Hd0S : Forall (fun s => d0 < as_date s - window_days) S1).
  { apply Forall_forall. intros s Hs. destruct (HS0 s (HS1 s Hs)) as (_ & H1 & _). unfold window_days. lia. }
  pose proof (keep_all_sd _ _ Hk) as EsdK.
  assert (Hhead : forall x rest, K' ++ T = x :: rest -> exists d, In d (dsK ++ dsT) /\ d_sd d = t_sd x).
  { intros x rest E. destruct K' as [|k K''].
    - destruct dsK as [|dk dsK']; [|discriminate EsdK]. cbn [app] in E |- *. rewrite E in ET.
      destruct (run_loop_head _ _ _ _ _ ET) as (d & ds' & -> & Hd). exists d. split; [left; reflexivity | exact Hd].
    - cbn [app] in E. inversion E; subst x. destruct dsK as [|dk dsK']; [discriminate EsdK|]. cbn [map] in EsdK.
      injection EsdK as E1 _. exists dk. split; [left; reflexivity | symmetry; exact E1]. }
  assert (Hskip : skipn (first_unsum rg) (dflt :: r) = dsK ++ dsT).
  { rewrite Eds3, <- El1. unfold ds3. rewrite skipn_app, skipn_all, Nat.sub_diag. reflexivity. }
  assert (HsoS : Forall (sell_ok hsA (K' ++ T)) S1).
  { apply Forall_forall. intros s Hs. pose proof (HS1 s Hs) as Hs0. destruct (HS0 s Hs0) as (_ & _ & Hle).
    unfold S0 in Hs0. apply in_sells in Hs0 as (x & yg0 & Hx & Hy & Es).
    destruct (Hgoodx x Hx) as (_ & Hsh & Hr1 & Hr2).
    assert (Er : af_reg (fst x) = false).
    { destruct (af_reg (fst x)) eqn:Er; [|reflexivity]. unfold x_ys in Hy. rewrite Er in Hy. destruct Hy. }
    destruct (Hr2 Er) as (c & Hc & Hc0). destruct (gl_of_nonneg (snd yg0)) as (Hg1 & Hg2 & _).
    split; [|split; [rewrite Es; exact Er|split; [rewrite Es; exact Hg1|split; [rewrite Es; exact Hg2|]]]].
    - exists (x_h ds3 dflt x). split.
      + unfold hsA. rewrite (find_ah_gen ds3 dflt afs Hndafs (as_af s)).
        rewrite (find_by_id afs x Hndafs Hx) by (rewrite Es; reflexivity).
        assert (Hn : (0 < ah_n (x_h ds3 dflt x))%Qc).
        { cbn [x_h ah_n]. destruct (x_ys ds3 x) as [|y0 l]; [destruct Hy|]. cbn [length qn].
          pose proof (qn_nonneg (length l)). qc_lra. }
        destruct (Qcltb_spec 0 (ah_n (x_h ds3 dflt x))); [reflexivity | contradiction].
      + cbn [x_h ah_aps]. rewrite Hc, Es. reflexivity.
    - intros Hlt. unfold out_after. destruct (K' ++ T) as [|x0 rest] eqn:EX; [exact I|].
      destruct (Hhead x0 rest eq_refl) as (d & Hd & Esd).
      assert (Hgl : gen_loss_sell (asell_tx like s) = true).
      { cbn [asell_tx mk_tx gen_loss_sell t_act]. apply Qcltb_true. rewrite Es in Hlt |- *. cbn [ysell as_gain as_loss] in *. qc_lra. }
      rewrite Edr in Erg.
      pose proof (K2s_of_false exact latest true (dflt :: r) rg _ _ Erg Hparts ltac:(rewrite <- Edr; exact HK2)
                    (asell_tx like s) d ltac:(apply in_or_app; right; apply in_map; exact Hs) Hgl
                    ltac:(rewrite Hskip; exact Hd)) as Hw.
      change (t_sd (asell_tx like s)) with (as_date s) in Hw.
      assert (Hc1d : c1 < d_sd d).
      { apply in_app_or in Hd as [Hd|Hd]; [rewrite Forall_forall in HcK; apply (HcK _ Hd)|].
        rewrite Forall_forall in HT. specialize (HT _ Hd). cbv beta in HT. lia. }
      unfold within_after in Hw. apply andb_false_iff in Hw as [Hw|Hw]; apply Z.leb_gt in Hw; lia. }
  (* the window conditions *)
  pose proof (run_part_bef _ _ _ _ _ _ _ EP) as EB1. rewrite app_nil_r in EB1.
  assert (HW : Forall (fun d => (d_sfl d <> None -> inert exact (d_sd d - window_days) B1)
                               /\ d0 < d_sd d - window_days) (dsK ++ dsT)).
  { apply Forall_forall. intros d Hd. split.
    - intros Hs. rewrite Forall_forall in HnegKT. pose proof (Hsfl d Hd (sfl_neg_is_sfl d (HnegKT d Hd) Hs)) as Hw.
      rewrite EB1. apply all_before_inert. apply Forall_rev. apply Forall_map. eapply Forall_impl; [|exact HcP].
      intros x Hx. cbv beta in Hx. change (t_sd (d_tx x)) with (d_sd x). lia.
    - rewrite Forall_forall in Hsorted0. assert (Hin3 : In d ds3) by (unfold ds3; apply in_or_app; right; exact Hd).
      specialize (Hsorted0 _ Hin3). unfold window_days. lia. }
  assert (HnzKT : Forall spec_nz (K ++ T)).
  { apply Forall_app. split; [unfold K, Lle | unfold T]; repeat apply Forall_filter; exact HnzL. }
  assert (HspK : Forall sell_pos (K ++ T)).
  { apply Forall_app. split; [unfold K, Lle | unfold T]; repeat apply Forall_filter; exact HspL. }
  assert (Hlp1 : lp st1 = ps_all st1) by (eapply run_part_lp; [|exact EP]; reflexivity).
  assert (Hok1 : st_ok st1).
  { eapply run_part_ok; [exact EP|]. split; cbn; [constructor | apply Qcle_refl]. }
  destruct (roundtrip_annual_kept regof like d0 hsA S1 K T B1 st1 dsK bLe stLe dsT K'
              HndA HokA HnA HsoS HsortS HndkS Hd0S HtotA Hlp1 HobsA EK ET Hk HnzKT Hok1 HspK HgoodKT HW)
    as (dsB & dsS & dsK' & Erun2 & _ & _ & _ & _ & _ & Hsd).
  (* assemble *)
  set (G := map (abuy_tx like d0) hsA ++ map (asell_tx like) S1) in *.
  assert (HGle : Forall (fun t => t_sd t <= c1) G).
  { unfold G. apply Forall_app. split; apply Forall_map; apply Forall_forall.
    - intros h Hh. destruct (HinA h Hh) as (x & Hx & _ & _). destruct (HxA x Hx) as (Hd & _).
      rewrite Forall_forall in HcP, Hsorted0. pose proof (HcP _ Hd) as Hc.
      assert (Hin3 : In (x_d ds3 dflt x) ds3) by (unfold ds3; apply in_or_app; left; exact Hd).
      specialize (Hsorted0 _ Hin3). change (t_sd (abuy_tx like d0 h)) with d0. lia.
    - intros s Hs. destruct (HS0 s (HS1 s Hs)) as (_ & _ & Hle). exact Hle. }
  assert (HK'sd : Forall (fun t => c1 < t_sd t /\ t_sd t <= latest) K').
  { apply Forall_forall. intros t Ht. apply (in_map t_sd) in Ht. rewrite EsdK in Ht.
    apply in_map_iff in Ht as (d & <- & Hd). rewrite Forall_forall in HcK. apply HcK. exact Hd. }
  assert (HGKle : Forall (fun t => t_sd t <= latest) (G ++ K')).
  { apply Forall_app. split.
    - eapply Forall_impl; [|exact HGle]. intros x Hxx. cbv beta in Hxx. lia.
    - eapply Forall_impl; [|exact HK'sd]. intros x [_ Hxx]. exact Hxx. }
  assert (Erun3 : run exact None ((G ++ K') ++ T) = ((dsB ++ dsS ++ dsK') ++ dsT, None)).
  { unfold G. rewrite <- !app_assoc. exact Erun2. }
  assert (Eds4 : ds = (dsP ++ dsK) ++ dsT) by (rewrite Eds; reflexivity).
  refine (assemble_any true latest rows0 ds (dsP ++ dsK) dsT (G ++ K') T (dsB ++ dsS ++ dsK') Hng0 eq_refl Hms (Hcsv _ Hms) _ _ HGKle
            Erun3 Eds4 HPK HT _).
  - apply Forall_app. split.
    + unfold G. apply Forall_app. split; apply Forall_map; apply Forall_forall; intros; reflexivity.
    + eapply keep_all_noglob; [exact Hk|]. apply Forall_app in HdQKT as [HdQK _].
      eapply Forall_impl; [|exact HdQK]. intros x Hxx. apply Hxx.
  - apply ss_app.
    + unfold G, hsA, S1, S0. rewrite <- lefts_gen, <- rights_gen. fold gens. rewrite <- (sort_sd_gen like d0 gens); [apply sort_sd_sorted|].
      unfold gens. rewrite rights_gen. apply Forall_forall. intros s Hs. destruct (HS0 s Hs) as (_ & H1 & _). lia.
    + apply sd_sorted_keys. rewrite EsdK. apply d_sorted_keys.
      rewrite Eds, <- app_assoc in Hdss. apply ss_app_inv in Hdss as (_ & Hdss & _).
      apply ss_app_inv in Hdss as (Hdss & _). exact Hdss.
    + eapply Forall_impl; [|exact HGle]. intros x Hxx. cbv beta in Hxx.
      eapply Forall_impl; [|exact HK'sd]. intros y [Hy _]. lia.
  - eapply Forall_impl; [|exact Hsd]. intros d (g & Hg & ->).
    rewrite Forall_forall in HGKle. apply HGKle. unfold G. rewrite <- app_assoc. exact Hg.
Qed.
