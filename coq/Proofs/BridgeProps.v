(* C07 for the concrete reader (parse_table of Model/CsvTable.v) and the
   bridge from parsed transactions to ledger rows (Model/Bridge.v). *)
From Coq Require Import List NArith ZArith QArith Qcanon Bool Arith Lia Permutation.
From ACB Require Import Base.Outcome Base.QcExtra Base.Arith Model.CsvFields Model.CsvTable
     Model.Tx Model.Ledger Model.Sfl Model.DeltaList Model.App Model.Bridge
     Proofs.CsvDigits Proofs.CsvProps.
Import ListNotations.
Local Open Scope N_scope.

(* ================================================================ header *)
(* the recognised, non-blank cells of a record, in column order *)
Definition knownl (l : list (option col * bytes)) : list (col * bytes) :=
  flat_map (fun hc => match fst hc with
                      | Some k => if is_nil (trim (snd hc)) then [] else [(k, trim (snd hc))]
                      | None => []
                      end) l.

Lemma row_values_known hdr row : row_values hdr row = rev (knownl (combine hdr row)).
Proof.
  revert row. induction hdr as [|h hr IH]; intros row; [reflexivity|].
  destruct row as [|c cr]; [reflexivity|].
  cbn [row_values combine knownl flat_map fst snd]. fold (knownl (combine hr cr)).
  rewrite rev_app_distr, <- IH.
  destruct h as [k|]; [|cbn [rev]; rewrite app_nil_r; reflexivity].
  destruct (is_nil (trim c)); cbn [rev app]; [rewrite app_nil_r|]; reflexivity.
Qed.

Lemma knownl_perm l l' : Permutation l l' -> Permutation (knownl l) (knownl l').
Proof.
  unfold knownl. intros Hp. induction Hp; cbn [flat_map].
  - constructor.
  - apply Permutation_app_head. assumption.
  - rewrite !app_assoc. apply Permutation_app_tail. apply Permutation_app_comm.
  - etransitivity; eassumption.
Qed.

Lemma col_eq_dec (a b : col) : {a = b} + {a <> b}.
Proof. destruct (col_eqb_spec a b); [left|right]; assumption. Qed.

Lemma lookup_notin k (l : list (col * bytes)) : ~ In k (map fst l) -> lookup k l = None.
Proof.
  induction l as [|[k' v] l IH]; intros Hn; [reflexivity|]. cbn [lookup].
  destruct (col_eqb_spec k k') as [E|E].
  - exfalso. apply Hn. left. cbn [fst]. congruence.
  - apply IH. intros H. apply Hn. right. exact H.
Qed.

Lemma lookup_in k v (l : list (col * bytes)) :
  NoDup (map fst l) -> In (k, v) l -> lookup k l = Some v.
Proof.
  induction l as [|[k' v'] l IH]; intros Hnd Hin; [contradiction|].
  cbn [map fst] in Hnd. apply NoDup_cons_iff in Hnd as [Hni Hnd]. cbn [lookup].
  destruct Hin as [E|Hin].
  - inversion E; subst. rewrite col_eqb_refl. reflexivity.
  - destruct (col_eqb_spec k k') as [E|E].
    + exfalso. subst k'. apply Hni. apply in_map_iff. exists (k, v). split; [reflexivity|assumption].
    + apply IH; assumption.
Qed.

Lemma lookup_perm k (l l' : list (col * bytes)) :
  NoDup (map fst l) -> Permutation l l' -> lookup k l = lookup k l'.
Proof.
  intros Hnd Hp.
  assert (Hnd' : NoDup (map fst l')).
  { eapply Permutation_NoDup; [|exact Hnd]. apply Permutation_map. exact Hp. }
  destruct (in_dec col_eq_dec k (map fst l)) as [Hin|Hni].
  - apply in_map_iff in Hin as ([k0 v] & Hk & Hin). cbn [fst] in Hk. subst k0.
    rewrite (lookup_in k v l Hnd Hin). symmetry. apply lookup_in; [exact Hnd'|].
    eapply Permutation_in; eassumption.
  - rewrite (lookup_notin k l Hni). symmetry. apply lookup_notin.
    intros H. apply Hni. eapply Permutation_in; [|exact H].
    apply Permutation_sym, Permutation_map. exact Hp.
Qed.

(* csvtx_from_csv_values reads its argument through [lookup] only *)
Lemma csvtx_from_values_ext tbl v1 v2 ri :
  (forall k, lookup k v1 = lookup k v2) ->
  csvtx_from_values tbl v1 ri = csvtx_from_values tbl v2 ri.
Proof. intros H. unfold csvtx_from_values. rewrite !H. reflexivity. Qed.

Definition norm (h : bytes) : bytes := trim (lower h).
Definition recognise (h : bytes) : option col := col_of_name (norm h).

Lemma header_cols_map header : header_cols header = map recognise header.
Proof. reflexivity. Qed.

Lemma header_cols_length header : length (header_cols header) = length header.
Proof. unfold header_cols. apply map_length. Qed.

Lemma combine_map_fst {A B C} (f : A -> C) (a : list A) (b : list B) :
  combine (map f a) b = map (fun x => (f (fst x), snd x)) (combine a b).
Proof.
  revert b. induction a as [|x a IH]; intros b; [reflexivity|].
  destruct b as [|y b]; [reflexivity|]. cbn [map combine fst snd]. rewrite IH. reflexivity.
Qed.

Lemma existsb_perm {T} (f : T -> bool) l l' : Permutation l l' -> existsb f l = existsb f l'.
Proof.
  intros Hp. induction Hp; cbn [existsb].
  - reflexivity.
  - rewrite IHHp. reflexivity.
  - destruct (f x), (f y); reflexivity.
  - congruence.
Qed.

Lemma has_col_perm k h h' : Permutation h h' -> has_col k h = has_col k h'.
Proof. apply existsb_perm. Qed.

(* one record: the value found for every column is the same *)
Lemma row_values_perm header header' r r' k :
  Permutation (combine header r) (combine header' r') ->
  NoDup (map fst (row_values (header_cols header) r)) ->
  lookup k (row_values (header_cols header') r') = lookup k (row_values (header_cols header) r).
Proof.
  intros Hp Hnd. symmetry. apply lookup_perm; [exact Hnd|].
  rewrite !row_values_known. unfold header_cols. rewrite !combine_map_fst.
  etransitivity; [symmetry; apply Permutation_rev|].
  etransitivity; [|apply Permutation_rev].
  apply knownl_perm. apply Permutation_map. exact Hp.
Qed.

Definition cols_permuted (header header' : list bytes) (r r' : list bytes) : Prop :=
  length r = length r' /\ Permutation (combine header r) (combine header' r').
Definition no_dup_column (header r : list bytes) : Prop :=
  NoDup (map fst (row_values (header_cols header) r)).

Lemma parse_rows_perm header header' rows rows' :
  length header = length header' ->
  Forall2 (fun r r' => cols_permuted header header' r r' /\ no_dup_column header r) rows rows' ->
  forall tbl ri,
  parse_rows tbl (header_cols header') rows' ri = parse_rows tbl (header_cols header) rows ri.
Proof.
  intros Hlen HF. induction HF as [|r r' rows rows' [[Hl Hp] Hnd] HF IH]; intros tbl ri; [reflexivity|].
  cbn [parse_rows]. rewrite !header_cols_length, <- Hl, <- Hlen.
  destruct (negb (length r =? length header)%nat); [reflexivity|].
  rewrite (csvtx_from_values_ext tbl (row_values (header_cols header') r') (row_values (header_cols header) r) ri)
    by (intros k; apply row_values_perm; assumption).
  destruct (csvtx_from_values tbl (row_values (header_cols header) r) ri) as [[v tbl1]| |]; cbn [bind];
    [|reflexivity|reflexivity].
  rewrite IH. reflexivity.
Qed.

(* Columns: header' / rows' are header / rows with their columns in another
   order (the zipped columns (header cell, cell) of every record are a
   permutation of each other; "the same permutation applied to the header and
   to every record" is the instance [columns_same_permutation] below).  The
   parsed CsvTx list, the affiliate table and every rejection are the same -
   provided no record has two non-blank cells under headers recognised as the
   same column (then the later one wins and the order matters). *)
Theorem columns_concrete tbl header header' rows rows' ri0 :
  Permutation header header' ->
  Forall2 (fun r r' => cols_permuted header header' r r' /\ no_dup_column header r) rows rows' ->
  parse_table tbl header' rows' ri0 = parse_table tbl header rows ri0.
Proof.
  intros Hp HF. unfold parse_table.
  assert (Hpc : Permutation (header_cols header) (header_cols header')).
  { unfold header_cols. apply Permutation_map. exact Hp. }
  rewrite <- (has_col_perm KSd _ _ Hpc), <- (has_col_perm KLegacy _ _ Hpc).
  destruct (has_col KSd (header_cols header) && has_col KLegacy (header_cols header)); [reflexivity|].
  apply parse_rows_perm; [apply Permutation_length; exact Hp|exact HF].
Qed.

(* the same index permutation applied to the header and to every record *)
Definition permute (p : list nat) (l : list bytes) : list bytes := map (fun i => nth i l []) p.

Lemma map_nth_seq {T} (d : T) (l : list T) : map (fun i => nth i l d) (seq 0 (length l)) = l.
Proof.
  induction l as [|a l IH]; [reflexivity|].
  cbn [length seq map nth]. f_equal. rewrite <- seq_shift, map_map. exact IH.
Qed.

Lemma permute_perm {T} (d : T) p (l : list T) :
  Permutation p (seq 0 (length l)) -> Permutation (map (fun i => nth i l d) p) l.
Proof.
  intros Hp. eapply perm_trans; [apply Permutation_map; exact Hp|].
  rewrite map_nth_seq. apply Permutation_refl.
Qed.

Lemma combine_permute p (h r : list bytes) :
  length r = length h -> Forall (fun i => (i < length h)%nat) p ->
  combine (permute p h) (permute p r) = map (fun i => nth i (combine h r) ([], [])) p.
Proof.
  intros Hl HF. unfold permute. induction HF as [|i p Hi HF IH]; [reflexivity|].
  cbn [map combine]. rewrite IH. f_equal.
  rewrite combine_nth by (symmetry; exact Hl). reflexivity.
Qed.

Theorem columns_same_permutation tbl header rows ri0 p :
  Permutation p (seq 0 (length header)) ->
  Forall (fun r => length r = length header /\ no_dup_column header r) rows ->
  parse_table tbl (permute p header) (map (permute p) rows) ri0 = parse_table tbl header rows ri0.
Proof.
  intros Hp HF.
  assert (Hlt : Forall (fun i => (i < length header)%nat) p).
  { apply Forall_forall. intros i Hi. apply (Permutation_in _ Hp) in Hi. apply in_seq in Hi. lia. }
  apply columns_concrete.
  - apply Permutation_sym. unfold permute. apply permute_perm. exact Hp.
  - induction HF as [|r rows [Hl Hnd] HF IH]; cbn [map]; constructor; [|exact IH].
    split; [|exact Hnd]. split.
    + unfold permute. rewrite map_length. rewrite Hl. symmetry.
      rewrite <- (seq_length (length header) 0). apply Permutation_length. exact Hp.
    + rewrite (combine_permute p header r Hl Hlt). apply Permutation_sym. apply permute_perm.
      rewrite combine_length, Hl, Nat.min_id. exact Hp.
Qed.

(* ---- unrecognised columns ---- *)
Definition recognised (h : bytes) : bool := is_some (recognise h).
(* a record (or the header itself) without the cells under unrecognised headers *)
Definition keep_known (header l : list bytes) : list bytes :=
  map snd (filter (fun hc => recognised (fst hc)) (combine header l)).

Lemma keep_known_cons h header c l :
  keep_known (h :: header) (c :: l)
  = if recognised h then c :: keep_known header l else keep_known header l.
Proof. unfold keep_known. cbn [combine filter fst]. destruct (recognised h); reflexivity. Qed.

Lemma keep_known_length header l :
  length l = length header -> length (keep_known header l) = length (keep_known header header).
Proof.
  revert l. induction header as [|h header IH]; intros l Hl; destruct l as [|c l]; try discriminate Hl;
    [reflexivity|].
  rewrite !keep_known_cons. cbn [length] in Hl. injection Hl as Hl.
  destruct (recognised h); cbn [length]; rewrite (IH l Hl); reflexivity.
Qed.

Lemma header_cols_cons h header : header_cols (h :: header) = recognise h :: header_cols header.
Proof. reflexivity. Qed.
Lemma has_col_cons k x l :
  has_col k (x :: l) = (match x with Some k' => col_eqb k k' | None => false end) || has_col k l.
Proof. reflexivity. Qed.

Lemma has_col_keep k header :
  has_col k (header_cols (keep_known header header)) = has_col k (header_cols header).
Proof.
  induction header as [|h header IH]; [reflexivity|].
  rewrite keep_known_cons, header_cols_cons, has_col_cons. unfold recognised.
  destruct (recognise h) as [c|] eqn:E; cbn [is_some].
  - rewrite header_cols_cons, has_col_cons, E, IH. reflexivity.
  - rewrite IH. reflexivity.
Qed.

Lemma row_values_keep header : forall r,
  length r = length header ->
  row_values (header_cols (keep_known header header)) (keep_known header r)
  = row_values (header_cols header) r.
Proof.
  induction header as [|h header IH]; intros r Hl; destruct r as [|c r]; try discriminate Hl;
    [reflexivity|].
  cbn [length] in Hl. injection Hl as Hl. rewrite !keep_known_cons, header_cols_cons.
  unfold recognised.
  destruct (recognise h) as [k|] eqn:E; cbn [is_some].
  - rewrite header_cols_cons, E. cbn [row_values]. rewrite (IH r Hl). reflexivity.
  - cbn [row_values]. apply IH. exact Hl.
Qed.

(* Deleting every column whose header is not recognised changes nothing
   (records as long as the header, as the csv crate demands anyway). *)
Theorem unknown_columns_concrete tbl header rows ri0 :
  Forall (fun r => length r = length header) rows ->
  parse_table tbl (keep_known header header) (map (keep_known header) rows) ri0
  = parse_table tbl header rows ri0.
Proof.
  intros HF. unfold parse_table. rewrite !has_col_keep.
  destruct (has_col KSd (header_cols header) && has_col KLegacy (header_cols header)); [reflexivity|].
  revert tbl ri0. induction HF as [|r rows Hl HF IH]; intros tbl ri0; [reflexivity|].
  cbn [map parse_rows].
  rewrite !header_cols_length, (keep_known_length header r Hl), Hl, !Nat.eqb_refl.
  cbn [negb]. rewrite (row_values_keep header r Hl).
  destruct (csvtx_from_values tbl (row_values (header_cols header) r) ri0) as [[v tbl1]| |]; cbn [bind];
    [|reflexivity|reflexivity].
  rewrite IH. reflexivity.
Qed.

(* hence: two tables that agree on their recognised columns (any unrecognised
   columns inserted anywhere, with any content) are read the same *)
Theorem unknown_columns_insert tbl h1 rows1 h2 rows2 ri0 :
  Forall (fun r => length r = length h1) rows1 -> Forall (fun r => length r = length h2) rows2 ->
  keep_known h1 h1 = keep_known h2 h2 ->
  map (keep_known h1) rows1 = map (keep_known h2) rows2 ->
  parse_table tbl h1 rows1 ri0 = parse_table tbl h2 rows2 ri0.
Proof.
  intros H1 H2 Eh Er.
  rewrite <- (unknown_columns_concrete tbl h1 rows1 ri0 H1), <- (unknown_columns_concrete tbl h2 rows2 ri0 H2).
  rewrite Eh, Er. reflexivity.
Qed.

(* ---- header spelling ---- *)
(* the header enters only through the columns its cells are recognised as *)
Theorem header_spelling_concrete tbl header header' rows ri0 :
  map recognise header = map recognise header' ->
  parse_table tbl header' rows ri0 = parse_table tbl header rows ri0.
Proof.
  intros H. unfold parse_table.
  change (header_cols header') with (map recognise header'). rewrite <- H. reflexivity.
Qed.

(* the modelled normalisation: ASCII lower-casing, then str::trim (Unicode
   White_Space, on UTF-8 bytes).  Case and blank padding do not matter: *)
Lemma trim_start_ws a s : forallb is_ascii_ws a = true -> trim_start (a ++ s) = trim_start s.
Proof.
  induction a as [|x a IH]; intros H; [reflexivity|].
  cbn [forallb] in H. apply andb_true_iff in H as [Hx Ha].
  cbn [app trim_start]. rewrite Hx. apply IH. exact Ha.
Qed.
Lemma trim_start_rev_ws a s : forallb is_ascii_ws a = true -> trim_start_rev (a ++ s) = trim_start_rev s.
Proof.
  induction a as [|x a IH]; intros H; [reflexivity|].
  cbn [forallb] in H. apply andb_true_iff in H as [Hx Ha].
  cbn [app trim_start_rev]. rewrite Hx. apply IH. exact Ha.
Qed.
Lemma forallb_rev {T} (f : T -> bool) l : forallb f (rev l) = forallb f l.
Proof.
  induction l as [|x l IH]; [reflexivity|]. cbn [rev forallb]. rewrite forallb_app, IH. cbn [forallb].
  rewrite andb_true_r. apply andb_comm.
Qed.
Lemma trim_end_ws s b : forallb is_ascii_ws b = true -> trim_end (s ++ b) = trim_end s.
Proof.
  intros H. unfold trim_end. rewrite rev_app_distr, trim_start_rev_ws; [reflexivity|].
  rewrite forallb_rev. exact H.
Qed.

Lemma ws_small c : is_ascii_ws c = true -> c <= 32.
Proof.
  unfold is_ascii_ws. rewrite orb_true_iff, andb_true_iff, !N.leb_le, N.eqb_eq. lia.
Qed.
Lemma ws2_r x c : c <= 32 -> ws2 x c = false.
Proof.
  intros H. unfold ws2.
  assert (E1 : (c =? 133) = false) by (apply N.eqb_neq; lia).
  assert (E2 : (c =? 160) = false) by (apply N.eqb_neq; lia).
  rewrite E1, E2. apply andb_false_r.
Qed.
Lemma ws3_m x c z : c <= 32 -> ws3 x c z = false.
Proof.
  intros H. unfold ws3.
  assert (E1 : (c =? 154) = false) by (apply N.eqb_neq; lia).
  assert (E2 : (c =? 128) = false) by (apply N.eqb_neq; lia).
  assert (E3 : (c =? 129) = false) by (apply N.eqb_neq; lia).
  rewrite E1, E2, E3. destruct (x =? 225), (x =? 226), (x =? 227); reflexivity.
Qed.
Lemma ws3_r x y c : c <= 32 -> ws3 x y c = false.
Proof.
  intros H. unfold ws3.
  assert (E1 : (c =? 128) = false) by (apply N.eqb_neq; lia).
  assert (E2 : (128 <=? c) = false) by (apply N.leb_gt; lia).
  assert (E3 : (c =? 168) = false) by (apply N.eqb_neq; lia).
  assert (E4 : (c =? 169) = false) by (apply N.eqb_neq; lia).
  assert (E5 : (c =? 175) = false) by (apply N.eqb_neq; lia).
  assert (E6 : (c =? 159) = false) by (apply N.eqb_neq; lia).
  rewrite E1, E2, E3, E4, E5, E6. cbn [andb orb]. rewrite !andb_false_r. reflexivity.
Qed.

Lemma trim_start_all_ws b : forallb is_ascii_ws b = true -> trim_start b = [].
Proof. intros H. rewrite <- (app_nil_r b). rewrite trim_start_ws by exact H. reflexivity. Qed.

Lemma trim_start_app_ws n : forall s b, (length s <= n)%nat -> forallb is_ascii_ws b = true ->
  trim_start (s ++ b) = trim_start s ++ b \/ (trim_start s = [] /\ trim_start (s ++ b) = []).
Proof.
  induction n as [|n IH]; intros s b Hl Hb.
  - destruct s; [|cbn in Hl; lia]. right. split; [reflexivity|]. apply trim_start_all_ws. exact Hb.
  - destruct s as [|x r].
    { right. split; [reflexivity|]. apply trim_start_all_ws. exact Hb. }
    cbn [length] in Hl. cbn [app trim_start].
    destruct (is_ascii_ws x) eqn:Ex.
    { apply IH; [lia|exact Hb]. }
    destruct r as [|y r2].
    { cbn [app]. left. destruct b as [|b0 b']; [reflexivity|].
      cbn [forallb] in Hb. apply andb_true_iff in Hb as [Hb0 Hb'].
      rewrite (ws2_r x b0 (ws_small b0 Hb0)).
      destruct b' as [|b1 b'']; [reflexivity|].
      rewrite (ws3_m x b0 b1 (ws_small b0 Hb0)). reflexivity. }
    cbn [app]. cbn [length] in Hl.
    destruct (ws2 x y) eqn:E2.
    { apply IH; [lia|exact Hb]. }
    destruct r2 as [|z r3].
    { cbn [app]. left. destruct b as [|b0 b']; [reflexivity|].
      cbn [forallb] in Hb. apply andb_true_iff in Hb as [Hb0 Hb'].
      rewrite (ws3_r x y b0 (ws_small b0 Hb0)). reflexivity. }
    cbn [app]. cbn [length] in Hl.
    destruct (ws3 x y z) eqn:E3.
    { apply IH; [lia|exact Hb]. }
    left. reflexivity.
Qed.

(* ASCII blanks (tab, LF, VT, FF, CR, space) around a cell do not matter *)
Lemma trim_pad a s b :
  forallb is_ascii_ws a = true -> forallb is_ascii_ws b = true -> trim (a ++ s ++ b) = trim s.
Proof.
  intros Ha Hb. unfold trim. rewrite (trim_start_ws a _ Ha).
  destruct (trim_start_app_ws (length s) s b (le_n _) Hb) as [E|[E1 E2]].
  - rewrite E. apply trim_end_ws. exact Hb.
  - rewrite E1, E2. reflexivity.
Qed.

Lemma lower_app a b : lower (a ++ b) = lower a ++ lower b.
Proof. apply map_app. Qed.
Lemma lower_ws a : forallb is_ascii_ws a = true -> lower a = a.
Proof.
  induction a as [|x a IH]; intros H; [reflexivity|].
  cbn [forallb] in H. apply andb_true_iff in H as [Hx Ha]. cbn [lower map]. fold (lower a).
  rewrite (IH Ha). f_equal. unfold lower1, is_upper.
  apply ws_small in Hx. assert (E : (65 <=? x) = false) by (apply N.leb_gt; lia). rewrite E. reflexivity.
Qed.

(* a header cell in another ASCII case and padded with ASCII blanks has the
   same normal form *)
Theorem header_norm_case_padding h h' a b :
  forallb is_ascii_ws a = true -> forallb is_ascii_ws b = true -> lower h' = lower h ->
  norm (a ++ h' ++ b) = norm h.
Proof.
  intros Ha Hb E. unfold norm. rewrite !lower_app, (lower_ws a Ha), (lower_ws b Hb), E.
  apply trim_pad; assumption.
Qed.

(* ---- text literals for the examples ---- *)
From Coq Require String Ascii.
Definition B (s : String.string) : bytes := map Ascii.N_of_ascii (String.list_ascii_of_string s).

Module HeaderExample.
  Import String.StringSyntax.
  Local Open Scope string_scope.
  Definition header : list bytes :=
    [B "Security"; B " trade date"; B "Broker Ref"; B "settlement date"; B "ACTION"; B "shares";
     B "amount/share"; B "commission"; B "currency"; B "exchange rate"; B "affiliate"].
  Definition row1 : list bytes :=
    [B "FOO"; B "2020-01-02"; B "x17"; B "2020-01-04"; B "buy"; B " 10 "; B "1.50"; B ""; B "usd"; B "1.31";
     B "Spouse (R)"].
  Definition row2 : list bytes :=
    [B "FOO"; B "2020-02-03"; B ""; B "2020-02-05"; B "Sell"; B "4"; B "2"; B "0.99"; B ""; B ""; B ""].
  Definition perm : list nat := [4; 0; 10; 2; 9; 1; 3; 8; 5; 7; 6]%nat.
End HeaderExample.
