(* C07 for the concrete reader (parse_table of Model/CsvTable.v) and the
   bridge from parsed transactions to ledger rows (Model/Bridge.v). *)
From Coq Require Import List NArith ZArith QArith Qcanon Bool Arith Lia Permutation.
From ACB Require Import Base.Outcome Base.QcExtra Base.Arith Model.CsvFields Model.CsvTable
     Model.Tx Model.Ledger Model.Sfl Model.DeltaList Model.App Model.Bridge
     Proofs.Tactics Proofs.CsvDigits Proofs.CsvProps.
Import ListNotations.
Local Open Scope N_scope.

(* ================================================================ header *)
(* the recognised, non-blank cells of a record, in column order *)
Definition knownl (l : list (option col * bytes)) : list (col * bytes) :=
  flat_map (fun hc => match fst hc with
                      | Some k => if is_nil (trim (snd hc)) then [] else [(k, trim (snd hc))]
                      | None => []
                      end) l.

Lemma row_values_known hdr row : row_values hdr row = rev (knownl (combine hdr row)).
Proof.
  revert row. induction hdr as [|h hr IH]; intros row; [reflexivity|].
  destruct row as [|c cr]; [reflexivity|].
  cbn [row_values combine knownl flat_map fst snd]. fold (knownl (combine hr cr)).
  rewrite rev_app_distr, <- IH.
  destruct h as [k|]; [|cbn [rev]; rewrite app_nil_r; reflexivity].
  destruct (is_nil (trim c)); cbn [rev app]; [rewrite app_nil_r|]; reflexivity.
Qed.

Lemma knownl_perm l l' : Permutation l l' -> Permutation (knownl l) (knownl l').
Proof.
  unfold knownl. intros Hp. induction Hp; cbn [flat_map].
  - constructor.
  - apply Permutation_app_head. assumption.
  - rewrite !app_assoc. apply Permutation_app_tail. apply Permutation_app_comm.
  - etransitivity; eassumption.
Qed.

Lemma col_eq_dec (a b : col) : {a = b} + {a <> b}.
Proof. destruct (col_eqb_spec a b); [left|right]; assumption. Qed.

Lemma lookup_notin k (l : list (col * bytes)) : ~ In k (map fst l) -> lookup k l = None.
Proof.
  induction l as [|[k' v] l IH]; intros Hn; [reflexivity|]. cbn [lookup].
  destruct (col_eqb_spec k k') as [E|E].
  - exfalso. apply Hn. left. cbn [fst]. congruence.
  - apply IH. intros H. apply Hn. right. exact H.
Qed.

Lemma lookup_in k v (l : list (col * bytes)) :
  NoDup (map fst l) -> In (k, v) l -> lookup k l = Some v.
Proof.
  induction l as [|[k' v'] l IH]; intros Hnd Hin; [contradiction|].
  cbn [map fst] in Hnd. apply NoDup_cons_iff in Hnd as [Hni Hnd]. cbn [lookup].
  destruct Hin as [E|Hin].
  - inversion E; subst. rewrite col_eqb_refl. reflexivity.
  - destruct (col_eqb_spec k k') as [E|E].
    + exfalso. subst k'. apply Hni. apply in_map_iff. exists (k, v). split; [reflexivity|assumption].
    + apply IH; assumption.
Qed.

Lemma lookup_perm k (l l' : list (col * bytes)) :
  NoDup (map fst l) -> Permutation l l' -> lookup k l = lookup k l'.
Proof.
  intros Hnd Hp.
  assert (Hnd' : NoDup (map fst l')).
  { eapply Permutation_NoDup; [|exact Hnd]. apply Permutation_map. exact Hp. }
  destruct (in_dec col_eq_dec k (map fst l)) as [Hin|Hni].
  - apply in_map_iff in Hin as ([k0 v] & Hk & Hin). cbn [fst] in Hk. subst k0.
    rewrite (lookup_in k v l Hnd Hin). symmetry. apply lookup_in; [exact Hnd'|].
    eapply Permutation_in; eassumption.
  - rewrite (lookup_notin k l Hni). symmetry. apply lookup_notin.
    intros H. apply Hni. eapply Permutation_in; [|exact H].
    apply Permutation_sym, Permutation_map. exact Hp.
Qed.

(* csvtx_from_csv_values reads its argument through [lookup] only *)
Lemma csvtx_from_values_ext tbl v1 v2 ri :
  (forall k, lookup k v1 = lookup k v2) ->
  csvtx_from_values tbl v1 ri = csvtx_from_values tbl v2 ri.
Proof. intros H. unfold csvtx_from_values. rewrite !H. reflexivity. Qed.

Definition norm (h : bytes) : bytes := trim (lower h).
Definition recognise (h : bytes) : option col := col_of_name (norm h).

Lemma header_cols_map header : header_cols header = map recognise header.
Proof. reflexivity. Qed.

Lemma header_cols_length header : length (header_cols header) = length header.
Proof. unfold header_cols. apply map_length. Qed.

Lemma combine_map_fst {A B C} (f : A -> C) (a : list A) (b : list B) :
  combine (map f a) b = map (fun x => (f (fst x), snd x)) (combine a b).
Proof.
  revert b. induction a as [|x a IH]; intros b; [reflexivity|].
  destruct b as [|y b]; [reflexivity|]. cbn [map combine fst snd]. rewrite IH. reflexivity.
Qed.

Lemma existsb_perm {T} (f : T -> bool) l l' : Permutation l l' -> existsb f l = existsb f l'.
Proof.
  intros Hp. induction Hp; cbn [existsb].
  - reflexivity.
  - rewrite IHHp. reflexivity.
  - destruct (f x), (f y); reflexivity.
  - congruence.
Qed.

Lemma has_col_perm k h h' : Permutation h h' -> has_col k h = has_col k h'.
Proof. apply existsb_perm. Qed.

(* one record: the value found for every column is the same *)
Lemma row_values_perm header header' r r' k :
  Permutation (combine header r) (combine header' r') ->
  NoDup (map fst (row_values (header_cols header) r)) ->
  lookup k (row_values (header_cols header') r') = lookup k (row_values (header_cols header) r).
Proof.
  intros Hp Hnd. symmetry. apply lookup_perm; [exact Hnd|].
  rewrite !row_values_known. unfold header_cols. rewrite !combine_map_fst.
  etransitivity; [symmetry; apply Permutation_rev|].
  etransitivity; [|apply Permutation_rev].
  apply knownl_perm. apply Permutation_map. exact Hp.
Qed.

Definition cols_permuted (header header' : list bytes) (r r' : list bytes) : Prop :=
  length r = length r' /\ Permutation (combine header r) (combine header' r').
Definition no_dup_column (header r : list bytes) : Prop :=
  NoDup (map fst (row_values (header_cols header) r)).

Lemma parse_rows_perm header header' rows rows' :
  length header = length header' ->
  Forall2 (fun r r' => cols_permuted header header' r r' /\ no_dup_column header r) rows rows' ->
  forall tbl ri,
  parse_rows tbl (header_cols header') rows' ri = parse_rows tbl (header_cols header) rows ri.
Proof.
  intros Hlen HF. induction HF as [|r r' rows rows' [[Hl Hp] Hnd] HF IH]; intros tbl ri; [reflexivity|].
  cbn [parse_rows]. rewrite !header_cols_length, <- Hl, <- Hlen.
  destruct (negb (length r =? length header)%nat); [reflexivity|].
  rewrite (csvtx_from_values_ext tbl (row_values (header_cols header') r') (row_values (header_cols header) r) ri)
    by (intros k; apply row_values_perm; assumption).
  destruct (csvtx_from_values tbl (row_values (header_cols header) r) ri) as [[v tbl1]| |]; cbn [bind];
    [|reflexivity|reflexivity].
  rewrite IH. reflexivity.
Qed.

(* Columns: header' / rows' are header / rows with their columns in another
   order (the zipped columns (header cell, cell) of every record are a
   permutation of each other; "the same permutation applied to the header and
   to every record" is the instance [columns_same_permutation] below).  The
   parsed CsvTx list, the affiliate table and every rejection are the same -
   provided no record has two non-blank cells under headers recognised as the
   same column (then the later one wins and the order matters). *)
Theorem columns_concrete tbl header header' rows rows' ri0 :
  Permutation header header' ->
  Forall2 (fun r r' => cols_permuted header header' r r' /\ no_dup_column header r) rows rows' ->
  parse_table tbl header' rows' ri0 = parse_table tbl header rows ri0.
Proof.
  intros Hp HF. unfold parse_table.
  assert (Hpc : Permutation (header_cols header) (header_cols header')).
  { unfold header_cols. apply Permutation_map. exact Hp. }
  rewrite <- (has_col_perm KSd _ _ Hpc), <- (has_col_perm KLegacy _ _ Hpc).
  destruct (has_col KSd (header_cols header) && has_col KLegacy (header_cols header)); [reflexivity|].
  apply parse_rows_perm; [apply Permutation_length; exact Hp|exact HF].
Qed.

(* the same index permutation applied to the header and to every record *)
Definition permute (p : list nat) (l : list bytes) : list bytes := map (fun i => nth i l []) p.

Lemma map_nth_seq {T} (d : T) (l : list T) : map (fun i => nth i l d) (seq 0 (length l)) = l.
Proof.
  induction l as [|a l IH]; [reflexivity|].
  cbn [length seq map nth]. f_equal. rewrite <- seq_shift, map_map. exact IH.
Qed.

Lemma permute_perm {T} (d : T) p (l : list T) :
  Permutation p (seq 0 (length l)) -> Permutation (map (fun i => nth i l d) p) l.
Proof.
  intros Hp. eapply perm_trans; [apply Permutation_map; exact Hp|].
  rewrite map_nth_seq. apply Permutation_refl.
Qed.

Lemma combine_permute p (h r : list bytes) :
  length r = length h -> Forall (fun i => (i < length h)%nat) p ->
  combine (permute p h) (permute p r) = map (fun i => nth i (combine h r) ([], [])) p.
Proof.
  intros Hl HF. unfold permute. induction HF as [|i p Hi HF IH]; [reflexivity|].
  cbn [map combine]. rewrite IH. f_equal.
  rewrite combine_nth by (symmetry; exact Hl). reflexivity.
Qed.

Theorem columns_same_permutation tbl header rows ri0 p :
  Permutation p (seq 0 (length header)) ->
  Forall (fun r => length r = length header /\ no_dup_column header r) rows ->
  parse_table tbl (permute p header) (map (permute p) rows) ri0 = parse_table tbl header rows ri0.
Proof.
  intros Hp HF.
  assert (Hlt : Forall (fun i => (i < length header)%nat) p).
  { apply Forall_forall. intros i Hi. apply (Permutation_in _ Hp) in Hi. apply in_seq in Hi. lia. }
  apply columns_concrete.
  - apply Permutation_sym. unfold permute. apply permute_perm. exact Hp.
  - induction HF as [|r rows [Hl Hnd] HF IH]; cbn [map]; constructor; [|exact IH].
    split; [|exact Hnd]. split.
    + unfold permute. rewrite map_length. rewrite Hl. symmetry.
      rewrite <- (seq_length (length header) 0). apply Permutation_length. exact Hp.
    + rewrite (combine_permute p header r Hl Hlt). apply Permutation_sym. apply permute_perm.
      rewrite combine_length, Hl, Nat.min_id. exact Hp.
Qed.

(* ---- unrecognised columns ---- *)
Definition recognised (h : bytes) : bool := is_some (recognise h).
(* a record (or the header itself) without the cells under unrecognised headers *)
Definition keep_known (header l : list bytes) : list bytes :=
  map snd (filter (fun hc => recognised (fst hc)) (combine header l)).

Lemma keep_known_cons h header c l :
  keep_known (h :: header) (c :: l)
  = if recognised h then c :: keep_known header l else keep_known header l.
Proof. unfold keep_known. cbn [combine filter fst]. destruct (recognised h); reflexivity. Qed.

Lemma keep_known_length header l :
  length l = length header -> length (keep_known header l) = length (keep_known header header).
Proof.
  revert l. induction header as [|h header IH]; intros l Hl; destruct l as [|c l]; try discriminate Hl;
    [reflexivity|].
  rewrite !keep_known_cons. cbn [length] in Hl. injection Hl as Hl.
  destruct (recognised h); cbn [length]; rewrite (IH l Hl); reflexivity.
Qed.

Lemma header_cols_cons h header : header_cols (h :: header) = recognise h :: header_cols header.
Proof. reflexivity. Qed.
Lemma has_col_cons k x l :
  has_col k (x :: l) = (match x with Some k' => col_eqb k k' | None => false end) || has_col k l.
Proof. reflexivity. Qed.

Lemma has_col_keep k header :
  has_col k (header_cols (keep_known header header)) = has_col k (header_cols header).
Proof.
  induction header as [|h header IH]; [reflexivity|].
  rewrite keep_known_cons, header_cols_cons, has_col_cons. unfold recognised.
  destruct (recognise h) as [c|] eqn:E; cbn [is_some].
  - rewrite header_cols_cons, has_col_cons, E, IH. reflexivity.
  - rewrite IH. reflexivity.
Qed.

Lemma row_values_keep header : forall r,
  length r = length header ->
  row_values (header_cols (keep_known header header)) (keep_known header r)
  = row_values (header_cols header) r.
Proof.
  induction header as [|h header IH]; intros r Hl; destruct r as [|c r]; try discriminate Hl;
    [reflexivity|].
  cbn [length] in Hl. injection Hl as Hl. rewrite !keep_known_cons, header_cols_cons.
  unfold recognised.
  destruct (recognise h) as [k|] eqn:E; cbn [is_some].
  - rewrite header_cols_cons, E. cbn [row_values]. rewrite (IH r Hl). reflexivity.
  - cbn [row_values]. apply IH. exact Hl.
Qed.

(* Deleting every column whose header is not recognised changes nothing
   (records as long as the header, as the csv crate demands anyway). *)
Theorem unknown_columns_concrete tbl header rows ri0 :
  Forall (fun r => length r = length header) rows ->
  parse_table tbl (keep_known header header) (map (keep_known header) rows) ri0
  = parse_table tbl header rows ri0.
Proof.
  intros HF. unfold parse_table. rewrite !has_col_keep.
  destruct (has_col KSd (header_cols header) && has_col KLegacy (header_cols header)); [reflexivity|].
  revert tbl ri0. induction HF as [|r rows Hl HF IH]; intros tbl ri0; [reflexivity|].
  cbn [map parse_rows].
  rewrite !header_cols_length, (keep_known_length header r Hl), Hl, !Nat.eqb_refl.
  cbn [negb]. rewrite (row_values_keep header r Hl).
  destruct (csvtx_from_values tbl (row_values (header_cols header) r) ri0) as [[v tbl1]| |]; cbn [bind];
    [|reflexivity|reflexivity].
  rewrite IH. reflexivity.
Qed.

(* hence: two tables that agree on their recognised columns (any unrecognised
   columns inserted anywhere, with any content) are read the same *)
Theorem unknown_columns_insert tbl h1 rows1 h2 rows2 ri0 :
  Forall (fun r => length r = length h1) rows1 -> Forall (fun r => length r = length h2) rows2 ->
  keep_known h1 h1 = keep_known h2 h2 ->
  map (keep_known h1) rows1 = map (keep_known h2) rows2 ->
  parse_table tbl h1 rows1 ri0 = parse_table tbl h2 rows2 ri0.
Proof.
  intros H1 H2 Eh Er.
  rewrite <- (unknown_columns_concrete tbl h1 rows1 ri0 H1), <- (unknown_columns_concrete tbl h2 rows2 ri0 H2).
  rewrite Eh, Er. reflexivity.
Qed.

(* ---- header spelling ---- *)
(* the header enters only through the columns its cells are recognised as *)
Theorem header_spelling_concrete tbl header header' rows ri0 :
  map recognise header = map recognise header' ->
  parse_table tbl header' rows ri0 = parse_table tbl header rows ri0.
Proof.
  intros H. unfold parse_table.
  change (header_cols header') with (map recognise header'). rewrite <- H. reflexivity.
Qed.

(* the modelled normalisation: ASCII lower-casing, then str::trim (Unicode
   White_Space, on UTF-8 bytes).  Case and blank padding do not matter: *)
Lemma trim_start_ws a s : forallb is_ascii_ws a = true -> trim_start (a ++ s) = trim_start s.
Proof.
  induction a as [|x a IH]; intros H; [reflexivity|].
  cbn [forallb] in H. apply andb_true_iff in H as [Hx Ha].
  cbn [app trim_start]. rewrite Hx. apply IH. exact Ha.
Qed.
Lemma trim_start_rev_ws a s : forallb is_ascii_ws a = true -> trim_start_rev (a ++ s) = trim_start_rev s.
Proof.
  induction a as [|x a IH]; intros H; [reflexivity|].
  cbn [forallb] in H. apply andb_true_iff in H as [Hx Ha].
  cbn [app trim_start_rev]. rewrite Hx. apply IH. exact Ha.
Qed.
Lemma forallb_rev {T} (f : T -> bool) l : forallb f (rev l) = forallb f l.
Proof.
  induction l as [|x l IH]; [reflexivity|]. cbn [rev forallb]. rewrite forallb_app, IH. cbn [forallb].
  rewrite andb_true_r. apply andb_comm.
Qed.
Lemma trim_end_ws s b : forallb is_ascii_ws b = true -> trim_end (s ++ b) = trim_end s.
Proof.
  intros H. unfold trim_end. rewrite rev_app_distr, trim_start_rev_ws; [reflexivity|].
  rewrite forallb_rev. exact H.
Qed.

Lemma ws_small c : is_ascii_ws c = true -> c <= 32.
Proof.
  unfold is_ascii_ws. rewrite orb_true_iff, andb_true_iff, !N.leb_le, N.eqb_eq. lia.
Qed.
Lemma ws2_r x c : c <= 32 -> ws2 x c = false.
Proof.
  intros H. unfold ws2.
  assert (E1 : (c =? 133) = false) by (apply N.eqb_neq; lia).
  assert (E2 : (c =? 160) = false) by (apply N.eqb_neq; lia).
  rewrite E1, E2. apply andb_false_r.
Qed.
Lemma ws3_m x c z : c <= 32 -> ws3 x c z = false.
Proof.
  intros H. unfold ws3.
  assert (E1 : (c =? 154) = false) by (apply N.eqb_neq; lia).
  assert (E2 : (c =? 128) = false) by (apply N.eqb_neq; lia).
  assert (E3 : (c =? 129) = false) by (apply N.eqb_neq; lia).
  rewrite E1, E2, E3. destruct (x =? 225), (x =? 226), (x =? 227); reflexivity.
Qed.
Lemma ws3_r x y c : c <= 32 -> ws3 x y c = false.
Proof.
  intros H. unfold ws3.
  assert (E1 : (c =? 128) = false) by (apply N.eqb_neq; lia).
  assert (E2 : (128 <=? c) = false) by (apply N.leb_gt; lia).
  assert (E3 : (c =? 168) = false) by (apply N.eqb_neq; lia).
  assert (E4 : (c =? 169) = false) by (apply N.eqb_neq; lia).
  assert (E5 : (c =? 175) = false) by (apply N.eqb_neq; lia).
  assert (E6 : (c =? 159) = false) by (apply N.eqb_neq; lia).
  rewrite E1, E2, E3, E4, E5, E6. cbn [andb orb]. rewrite !andb_false_r. reflexivity.
Qed.

Lemma trim_start_all_ws b : forallb is_ascii_ws b = true -> trim_start b = [].
Proof. intros H. rewrite <- (app_nil_r b). rewrite trim_start_ws by exact H. reflexivity. Qed.

Lemma trim_start_app_ws n : forall s b, (length s <= n)%nat -> forallb is_ascii_ws b = true ->
  trim_start (s ++ b) = trim_start s ++ b \/ (trim_start s = [] /\ trim_start (s ++ b) = []).
Proof.
  induction n as [|n IH]; intros s b Hl Hb.
  - destruct s; [|cbn in Hl; lia]. right. split; [reflexivity|]. apply trim_start_all_ws. exact Hb.
  - destruct s as [|x r].
    { right. split; [reflexivity|]. apply trim_start_all_ws. exact Hb. }
    cbn [length] in Hl. cbn [app trim_start].
    destruct (is_ascii_ws x) eqn:Ex.
    { apply IH; [lia|exact Hb]. }
    destruct r as [|y r2].
    { cbn [app]. left. destruct b as [|b0 b']; [reflexivity|].
      cbn [forallb] in Hb. apply andb_true_iff in Hb as [Hb0 Hb'].
      rewrite (ws2_r x b0 (ws_small b0 Hb0)).
      destruct b' as [|b1 b'']; [reflexivity|].
      rewrite (ws3_m x b0 b1 (ws_small b0 Hb0)). reflexivity. }
    cbn [app]. cbn [length] in Hl.
    destruct (ws2 x y) eqn:E2.
    { apply IH; [lia|exact Hb]. }
    destruct r2 as [|z r3].
    { cbn [app]. left. destruct b as [|b0 b']; [reflexivity|].
      cbn [forallb] in Hb. apply andb_true_iff in Hb as [Hb0 Hb'].
      rewrite (ws3_r x y b0 (ws_small b0 Hb0)). reflexivity. }
    cbn [app]. cbn [length] in Hl.
    destruct (ws3 x y z) eqn:E3.
    { apply IH; [lia|exact Hb]. }
    left. reflexivity.
Qed.

(* ASCII blanks (tab, LF, VT, FF, CR, space) around a cell do not matter *)
Lemma trim_pad a s b :
  forallb is_ascii_ws a = true -> forallb is_ascii_ws b = true -> trim (a ++ s ++ b) = trim s.
Proof.
  intros Ha Hb. unfold trim. rewrite (trim_start_ws a _ Ha).
  destruct (trim_start_app_ws (length s) s b (le_n _) Hb) as [E|[E1 E2]].
  - rewrite E. apply trim_end_ws. exact Hb.
  - rewrite E1, E2. reflexivity.
Qed.

Lemma lower_app a b : lower (a ++ b) = lower a ++ lower b.
Proof. apply map_app. Qed.
Lemma lower_ws a : forallb is_ascii_ws a = true -> lower a = a.
Proof.
  induction a as [|x a IH]; intros H; [reflexivity|].
  cbn [forallb] in H. apply andb_true_iff in H as [Hx Ha]. cbn [lower map]. fold (lower a).
  rewrite (IH Ha). f_equal. unfold lower1, is_upper.
  apply ws_small in Hx. assert (E : (65 <=? x) = false) by (apply N.leb_gt; lia). rewrite E. reflexivity.
Qed.

(* a header cell in another ASCII case and padded with ASCII blanks has the
   same normal form *)
Theorem header_norm_case_padding h h' a b :
  forallb is_ascii_ws a = true -> forallb is_ascii_ws b = true -> lower h' = lower h ->
  norm (a ++ h' ++ b) = norm h.
Proof.
  intros Ha Hb E. unfold norm. rewrite !lower_app, (lower_ws a Ha), (lower_ws b Hb), E.
  apply trim_pad; assumption.
Qed.

(* ---- text literals for the examples ---- *)
From Coq Require String Ascii.
Definition B (s : String.string) : bytes := map Ascii.N_of_ascii (String.list_ascii_of_string s).

Module HeaderExample.
  Import String.StringSyntax.
  Local Open Scope string_scope.
  Definition header : list bytes :=
    [B "Security"; B " trade date"; B "Broker Ref"; B "settlement date"; B "ACTION"; B "shares";
     B "amount/share"; B "commission"; B "currency"; B "exchange rate"; B "affiliate"].
  Definition row1 : list bytes :=
    [B "FOO"; B "2020-01-02"; B "x17"; B "2020-01-04"; B "buy"; B " 10 "; B "1.50"; B ""; B "usd"; B "1.31";
     B "Spouse (R)"].
  Definition row2 : list bytes :=
    [B "FOO"; B "2020-02-03"; B ""; B "2020-02-05"; B "Sell"; B "4"; B "2"; B "0.99"; B ""; B ""; B ""].
  Definition perm : list nat := [4; 0; 10; 2; 9; 1; 3; 8; 5; 7; 6]%nat.
End HeaderExample.

(* ================================================================ bridge *)
(* ---- signs of decimals ---- *)
Lemma Qcfrac_this z p : (this (Qcfrac z p) == z # p)%Q.
Proof. apply Qred_correct. Qed.
Lemma Qcfrac_pos z p : (0 < z)%Z -> (0 < Qcfrac z p)%Qc.
Proof.
  intros H. unfold Qclt. rewrite Qcfrac_this. change (this 0%Qc) with (0 # 1)%Q.
  unfold Qlt. cbn [Qnum Qden]. lia.
Qed.
Lemma Qcfrac_nonneg z p : (0 <= z)%Z -> (0 <= Qcfrac z p)%Qc.
Proof.
  intros H. unfold Qcle. rewrite Qcfrac_this. change (this 0%Qc) with (0 # 1)%Q.
  unfold Qle. cbn [Qnum Qden]. lia.
Qed.
Lemma Qcfrac_nonpos z p : (z <= 0)%Z -> (Qcfrac z p <= 0)%Qc.
Proof.
  intros H. unfold Qcle. rewrite Qcfrac_this. change (this 0%Qc) with (0 # 1)%Q.
  unfold Qle. cbn [Qnum Qden]. lia.
Qed.

Lemma dec_q_pos d : dec_pos d = true -> (0 < dec_q d)%Qc.
Proof.
  unfold dec_pos, dec_is_zero, dec_q. rewrite andb_true_iff, !negb_true_iff, N.eqb_neq.
  intros [Hn Hm]. rewrite Hn. apply Qcfrac_pos. lia.
Qed.
Lemma dec_q_gez d : dec_gez d = true -> (0 <= dec_q d)%Qc.
Proof.
  unfold dec_gez, dec_is_zero, dec_q. rewrite orb_true_iff, negb_true_iff, N.eqb_eq.
  intros [Hn|Hm].
  - rewrite Hn. apply Qcfrac_nonneg. lia.
  - rewrite Hm. destruct (d_neg d); apply Qcfrac_nonneg; cbn; lia.
Qed.
Lemma dec_q_lez d : dec_lez d = true -> (dec_q d <= 0)%Qc.
Proof.
  unfold dec_lez, dec_is_zero, dec_q. rewrite orb_true_iff, N.eqb_eq.
  intros [Hn|Hm].
  - rewrite Hn. apply Qcfrac_nonpos. lia.
  - rewrite Hm. destruct (d_neg d); apply Qcfrac_nonpos; cbn; lia.
Qed.

(* ---- what the field parsers guarantee ---- *)
Definition sfl_good (o : option sflin) : Prop :=
  match o with Some s => dec_lez (sf_val s) = true | None => True end.
Definition ratio_good (o : option ratio) : Prop :=
  match o with Some r => dec_pos (r_post r) = true /\ dec_pos (r_pre r) = true | None => True end.

Lemma parse_sfl_good s x : parse_sfl s = Ok x -> dec_lez (sf_val x) = true.
Proof.
  unfold parse_sfl. destruct (parse_dec _) as [d|r|p]; [|destruct r; discriminate|discriminate].
  destruct (dec_lez d) eqn:E; [|discriminate]. intros H. inversion H. exact E.
Qed.

Lemma parse_ratio_good s r : parse_ratio s = Ok r -> dec_pos (r_post r) = true /\ dec_pos (r_pre r) = true.
Proof.
  unfold parse_ratio. destruct (span_digdot (trim s)) as [g1 r1].
  destruct (is_nil g1); [discriminate|].
  destruct (strip_for r1) as [r2|]; [|discriminate].
  destruct (span_digdot r2) as [g2 r3].
  destruct (is_nil g2 || negb (is_nil r3)); [discriminate|].
  destruct (parse_dec_exact g1) as [post|e|p]; [|discriminate|discriminate].
  destruct (dec_pos post) eqn:E1; cbn [negb]; [|discriminate].
  destruct (parse_dec_exact g2) as [pre|e|p]; [|discriminate|discriminate].
  destruct (dec_pos pre) eqn:E2; cbn [negb]; [|discriminate].
  intros H. inversion H as [H1]. destruct (ratio_is_reverse _); cbn [r_post r_pre]; split; assumption.
Qed.

(* ---- affiliates: registered() is a function of id() ---- *)
Definition has_R (id : bytes) : bool := existsb (N.eqb 82) id.
Definition aff_wf (a : affdata) : Prop := a_reg a = has_R (a_id a).
Definition tbl_wf (t : aftable) : Prop := Forall aff_wf t.

Lemma lower_no_R p : has_R (lower p) = false.
Proof.
  unfold has_R, lower. induction p as [|c p IH]; [reflexivity|]. cbn [map existsb]. rewrite IH, orb_false_r.
  unfold lower1, is_upper. apply N.eqb_neq.
  destruct (65 <=? c) eqn:E1; destruct (c <=? 90) eqn:E2; cbn [andb];
    try apply N.leb_le in E1; try apply N.leb_le in E2; try apply N.leb_gt in E1; try apply N.leb_gt in E2; lia.
Qed.

Lemma from_strep_wf s : aff_wf (from_strep_data s).
Proof.
  unfold aff_wf, from_strep_data. destruct (has_reg s); cbn [a_reg a_id].
  - unfold has_R. rewrite existsb_app. symmetry. apply orb_true_iff. right. reflexivity.
  - symmetry. apply lower_no_R.
Qed.

Lemma tbl_find_in id t a : tbl_find id t = Some a -> In a t.
Proof.
  induction t as [|b t IH]; [discriminate|]. cbn [tbl_find].
  destruct (beqb (a_id b) id); intros H; [inversion H; left; reflexivity|right; apply IH; exact H].
Qed.

Lemma intern_wf t s a t' : intern t s = (a, t') -> tbl_wf t -> aff_wf a /\ tbl_wf t'.
Proof.
  unfold intern. destruct (tbl_find _ t) as [b|] eqn:E; intros H Hw; inversion H; subst.
  - split; [|exact Hw]. unfold tbl_wf in Hw. rewrite Forall_forall in Hw. apply Hw.
    eapply tbl_find_in. exact E.
  - split; [apply from_strep_wf|]. apply Forall_app. split; [exact Hw|].
    constructor; [apply from_strep_wf|constructor].
Qed.

(* ---- rows out of the parser ---- *)
Definition row_good (v : csvtx) : Prop :=
  sfl_good (v_sfl v) /\ ratio_good (v_ratio v)
  /\ match v_af v with Some a => aff_wf a | None => True end.

Lemma opt_parse_ok {T} (f : bytes -> res T) o x :
  opt_parse f o = Ok x -> match o, x with
                          | Some s, Some y => f s = Ok y
                          | None, None => True
                          | _, _ => False
                          end.
Proof.
  unfold opt_parse. destruct o as [s|].
  - destruct (f s) as [y| |]; cbn [bind]; intros H; inversion H. reflexivity.
  - intros H. inversion H. exact I.
Qed.

Lemma csvtx_from_values_good tbl vals ri v tbl' :
  csvtx_from_values tbl vals ri = Ok (v, tbl') -> tbl_wf tbl -> row_good v /\ tbl_wf tbl'.
Proof.
  unfold csvtx_from_values. intros H Hw.
  bind_as H as td Etd. bind_as H as sd0 Esd0. bind_as H as sdl Esdl. bind_as H as a Ea.
  bind_as H as sh Esh. bind_as H as aps Eaps. bind_as H as com Ecom. bind_as H as fx Efx.
  bind_as H as cfx Ecfx.
  destruct (match lookup KAf vals with
            | Some s => if is_nil (trim s) then (None, tbl) else let '(a0, t1) := intern tbl s in (Some a0, t1)
            | None => (None, tbl)
            end) as [af tbl1] eqn:Eaf.
  bind_as H as sfl Esfl. bind_as H as ratio Eratio.
  inversion H; subst. unfold row_good. cbn [v_sfl v_ratio v_af].
  assert (Haf : match af with Some a0 => aff_wf a0 | None => True end /\ tbl_wf tbl').
  { destruct (lookup KAf vals) as [s|].
    - destruct (is_nil (trim s)).
      + inversion Eaf; subst. split; [exact I|exact Hw].
      + destruct (intern tbl s) as [a0 t1] eqn:Ei. inversion Eaf; subst.
        eapply intern_wf; eassumption.
    - inversion Eaf; subst. split; [exact I|exact Hw]. }
  destruct Haf as [Haf Hw']. repeat split; try assumption.
  - apply opt_parse_ok in Esfl. destruct (lookup KSfl vals), sfl; try contradiction; [|exact I].
    cbn [sfl_good]. eapply parse_sfl_good. exact Esfl.
  - apply opt_parse_ok in Eratio. destruct (lookup KRatio vals), ratio; try contradiction; [|exact I].
    cbn [ratio_good]. eapply parse_ratio_good. exact Eratio.
Qed.

Lemma parse_rows_good hdr rows : forall tbl ri vs tbl',
  parse_rows tbl hdr rows ri = Ok (vs, tbl') -> tbl_wf tbl -> Forall row_good vs /\ tbl_wf tbl'.
Proof.
  induction rows as [|r rows IH]; intros tbl ri vs tbl' H Hw.
  - inversion H; subst. split; [constructor|exact Hw].
  - cbn [parse_rows] in H. destruct (negb _); [discriminate|].
    bind_as H as x E1. destruct x as [v tbl1]. bind_as H as y E2. destruct y as [vs0 tbl2].
    inversion H; subst.
    destruct (csvtx_from_values_good _ _ _ _ _ E1 Hw) as [Hv Hw1].
    destruct (IH _ _ _ _ E2 Hw1) as [Hvs Hw2]. split; [constructor; assumption|assumption].
Qed.

Lemma parse_table_good tbl header rows ri vs tbl' :
  parse_table tbl header rows ri = Ok (vs, tbl') -> tbl_wf tbl -> Forall row_good vs /\ tbl_wf tbl'.
Proof.
  unfold parse_table. destruct (_ && _); [discriminate|]. apply parse_rows_good.
Qed.

(* ---- Tx::try_from ---- *)
Lemma valid_exchange_rate_pos cur fx o :
  valid_exchange_rate cur fx = Ok o ->
  match o with Some c => dec_pos (c_rate c) = true | None => True end.
Proof.
  unfold valid_exchange_rate. destruct cur as [c|]; [|destruct fx; intros H; inversion H; exact I].
  destruct (cur_is_default c && negb (is_some fx)); [intros H; inversion H; reflexivity|].
  destruct fx as [r|]; [|discriminate].
  destruct (dec_pos r) eqn:E; cbn [negb]; [|discriminate].
  destruct (cur_is_default c && negb (dec_is_one r)); [discriminate|].
  intros H. inversion H. exact E.
Qed.

Lemma or_default_pos o :
  match o with Some c => dec_pos (c_rate c) = true | None => True end ->
  dec_pos (c_rate (or_default o)) = true.
Proof. destruct o; [auto|reflexivity]. Qed.

Lemma common_attrs_good v sh aps com cr ccr :
  common_attrs v = Ok (sh, aps, com, cr, ccr) ->
  dec_pos sh = true /\ dec_gez aps = true /\ dec_gez com = true /\ dec_pos (c_rate cr) = true
  /\ dec_pos (c_rate (com_car cr ccr)) = true.
Proof.
  unfold common_attrs. intros H.
  bind_as H as sh0 E1. bind_as H as aps0 E2. bind_as H as cr0 E3. bind_as H as ccr0 E4.
  destruct (dec_pos sh0) eqn:P1; cbn [negb] in H; [|discriminate].
  destruct (dec_gez aps0) eqn:P2; cbn [negb] in H; [|discriminate].
  destruct (dec_gez (match v_com v with Some c => c | None => dec_zero end)) eqn:P3; cbn [negb] in H; [|discriminate].
  inversion H; subst.
  apply valid_exchange_rate_pos in E3, E4. apply or_default_pos in E3.
  repeat split; try assumption.
  destruct ccr as [c|]; [exact E4|exact E3].
Qed.

Lemma Qcltb_intro a b : (a < b)%Qc -> Qcltb a b = true.
Proof. apply Qcltb_true. Qed.
Lemma Qcleb_intro a b : (a <= b)%Qc -> Qcleb a b = true.
Proof. apply Qcleb_true. Qed.

Definition ctx_good (t : ctx) : Prop :=
  valid_action (abs_act (x_act t)) = true /\ aff_wf (x_af t).

Lemma req_ok {T} (o : option T) c x : req o c = Ok x -> o = Some x.
Proof. destruct o; cbn; intros H; inversion H; reflexivity. Qed.

Lemma tx_try_from_good tbl v t tbl' :
  tx_try_from tbl v = Ok (t, tbl') -> tbl_wf tbl -> row_good v -> ctx_good t /\ tbl_wf tbl'.
Proof.
  unfold tx_try_from. intros H Hw (Hsfl & Hratio & Haf).
  destruct (v_act v) as [a|]; [|discriminate].
  bind_as H as specs Es. bind_as H as sec E1. bind_as H as td E2. bind_as H as sd E3.
  destruct (match v_af v with
            | Some a0 => (a0, tbl)
            | None => match a with ASplit => af_global tbl | _ => af_default tbl end
            end) as [af tbl1] eqn:Eaf.
  destruct (is_nil sec); [discriminate|]. inversion H; subst. unfold ctx_good. cbn [x_act x_af].
  assert (Hafw : aff_wf af /\ tbl_wf tbl').
  { destruct (v_af v) as [a0|].
    - inversion Eaf; subst. split; assumption.
    - destruct a; (eapply intern_wf; [exact Eaf|exact Hw]). }
  destruct Hafw as [Hafw Hw']. split; [split; [|exact Hafw]|exact Hw'].
  destruct a.
  - bind_as Es as x Ec. destruct x as [[[[sh aps] com] cr] ccr]. inversion Es; subst.
    apply common_attrs_good in Ec. destruct Ec as (P1 & P2 & P3 & P4 & P5).
    cbn [abs_act valid_action].
    rewrite (Qcltb_intro _ _ (dec_q_pos _ P1)), (Qcleb_intro _ _ (dec_q_gez _ P2)),
      (Qcleb_intro _ _ (dec_q_gez _ P3)), (Qcltb_intro _ _ (dec_q_pos _ P4)),
      (Qcltb_intro _ _ (dec_q_pos _ P5)). reflexivity.
  - bind_as Es as x Ec. destruct x as [[[[sh aps] com] cr] ccr]. inversion Es; subst.
    apply common_attrs_good in Ec. destruct Ec as (P1 & P2 & P3 & P4 & P5).
    cbn [abs_act valid_action].
    rewrite (Qcltb_intro _ _ (dec_q_pos _ P1)), (Qcleb_intro _ _ (dec_q_gez _ P2)),
      (Qcleb_intro _ _ (dec_q_gez _ P3)), (Qcltb_intro _ _ (dec_q_pos _ P4)),
      (Qcltb_intro _ _ (dec_q_pos _ P5)). cbn [andb].
    destruct (v_sfl v) as [s|]; cbn [option_map sfl_good] in *; [|reflexivity].
    apply Qcleb_intro. apply dec_q_lez. exact Hsfl.
  - bind_as Es as aps Ea. destruct (dec_gez aps) eqn:P; cbn [negb] in Es; [|discriminate].
    destruct (is_some (v_sh v)); [discriminate|].
    bind_as Es as cr Ec. inversion Es; subst.
    apply valid_exchange_rate_pos, or_default_pos in Ec.
    cbn [abs_act valid_action].
    rewrite (Qcleb_intro _ _ (dec_q_gez _ P)), (Qcltb_intro _ _ (dec_q_pos _ Ec)). reflexivity.
  - bind_as Es as aps Ea. bind_as Es as sh Eh. bind_as Es as cr Ec.
    destruct (match cr with Some c => negb (car_is_default c) | None => false end); [discriminate|].
    destruct (dec_pos sh) eqn:P1; cbn [negb] in Es; [|discriminate].
    destruct (dec_pos aps) eqn:P2; cbn [negb] in Es; [|discriminate].
    inversion Es; subst. cbn [abs_act valid_action].
    rewrite (Qcltb_intro _ _ (dec_q_pos _ P1)), (Qcltb_intro _ _ (dec_q_pos _ P2)). reflexivity.
  - bind_as Es as r Er. inversion Es; subst. apply req_ok in Er. rewrite Er in Hratio.
    cbn [ratio_good] in Hratio. destruct Hratio as [P1 P2]. cbn [abs_act valid_action].
    rewrite (Qcltb_intro _ _ (dec_q_pos _ P1)), (Qcltb_intro _ _ (dec_q_pos _ P2)). reflexivity.
Qed.

Lemma txs_try_from_good vs : forall tbl ts tbl',
  txs_try_from tbl vs = Ok (ts, tbl') -> tbl_wf tbl -> Forall row_good vs ->
  Forall ctx_good ts /\ tbl_wf tbl'.
Proof.
  induction vs as [|v vs IH]; intros tbl ts tbl' H Hw Hg.
  - inversion H; subst. split; [constructor|exact Hw].
  - cbn [txs_try_from] in H. bind_as H as x E1. destruct x as [t tbl1].
    bind_as H as y E2. destruct y as [ts0 tbl2]. inversion H; subst.
    inversion Hg as [|v0 vs0 Hv Hvs]; subst.
    destruct (tx_try_from_good _ _ _ _ E1 Hw Hv) as [Ht Hw1].
    destruct (IH _ _ _ E2 Hw1 Hvs) as [Hts Hw2]. split; [constructor; assumption|assumption].
Qed.

Lemma read_file_good tbl f ri ts tbl' :
  read_file tbl f ri = Ok (ts, tbl') -> tbl_wf tbl -> Forall ctx_good ts /\ tbl_wf tbl'.
Proof.
  unfold read_file. intros H Hw. bind_as H as x E1. destruct x as [vs tbl1].
  bind_as H as u E2. destruct (parse_table_good _ _ _ _ _ _ E1 Hw) as [Hvs Hw1].
  eapply txs_try_from_good; eassumption.
Qed.

Lemma read_files_good fs : forall tbl ri ts tbl',
  read_files tbl fs ri = Ok (ts, tbl') -> tbl_wf tbl -> Forall ctx_good ts /\ tbl_wf tbl'.
Proof.
  induction fs as [|f fs IH]; intros tbl ri ts tbl' H Hw.
  - inversion H; subst. split; [constructor|exact Hw].
  - cbn [read_files] in H. bind_as H as x E1. destruct x as [t1 tbl1].
    bind_as H as y E2. destruct y as [t2 tbl2]. inversion H; subst.
    destruct (read_file_good _ _ _ _ _ E1 Hw) as [H1 Hw1].
    destruct (IH _ _ _ _ E2 Hw1) as [H2 Hw2]. split; [apply Forall_app; split; assumption|assumption].
Qed.

(* ---- the numbering of names preserves the byte order of the strings ---- *)
Lemma bltb_irrefl a : bltb a a = false.
Proof.
  induction a as [|x a IH]; [reflexivity|]. cbn [bltb]. rewrite N.ltb_irrefl, N.eqb_refl, IH. reflexivity.
Qed.

Lemma bltb_cons x a y b :
  bltb (x :: a) (y :: b) = true <-> x < y \/ (x = y /\ bltb a b = true).
Proof.
  cbn [bltb]. rewrite orb_true_iff, andb_true_iff, N.ltb_lt, N.eqb_eq. reflexivity.
Qed.

Lemma bltb_trans a : forall b c, bltb a b = true -> bltb b c = true -> bltb a c = true.
Proof.
  induction a as [|x a IH]; intros b c Hab Hbc.
  - destruct b as [|y b]; [discriminate|]. destruct c as [|z c]; [discriminate|]. reflexivity.
  - destruct b as [|y b]; [discriminate|]. destruct c as [|z c]; [discriminate|].
    apply bltb_cons in Hab, Hbc. apply bltb_cons.
    destruct Hab as [Hab|[E1 Hab]]; destruct Hbc as [Hbc|[E2 Hbc]]; try (left; lia).
    right. split; [congruence|]. eapply IH; eassumption.
Qed.

Lemma bltb_total a : forall b, a = b \/ bltb a b = true \/ bltb b a = true.
Proof.
  induction a as [|x a IH]; intros b; destruct b as [|y b].
  - left. reflexivity.
  - right. left. reflexivity.
  - right. right. reflexivity.
  - destruct (N.lt_trichotomy x y) as [H|[H|H]].
    + right. left. apply bltb_cons. left. exact H.
    + subst y. destruct (IH b) as [E|[E|E]].
      * left. congruence.
      * right. left. apply bltb_cons. right. split; [reflexivity|exact E].
      * right. right. apply bltb_cons. right. split; [reflexivity|exact E].
    + right. right. apply bltb_cons. left. exact H.
Qed.

Lemma bmem_In s l : bmem s l = true <-> In s l.
Proof.
  unfold bmem. rewrite existsb_exists. split.
  - intros [x [Hx E]]. apply beqb_eq in E. subst. exact Hx.
  - intros H. exists s. split; [exact H|apply beqb_refl].
Qed.

Lemma In_dedup a l : In a l <-> In a (dedup l).
Proof.
  induction l as [|s r IH]; [reflexivity|]. cbn [dedup]. destruct (bmem s r) eqn:E.
  - rewrite <- IH. split; [|right; assumption]. intros [H|H]; [|exact H]. subst. apply bmem_In. exact E.
  - cbn [In]. rewrite IH. reflexivity.
Qed.

Lemma filter_length_lt {T} (p q : T -> bool) a l :
  (forall x, p x = true -> q x = true) -> In a l -> p a = false -> q a = true ->
  (length (filter p l) < length (filter q l))%nat.
Proof.
  intros Hpq Hin Hpa Hqa.
  assert (Hle : forall m, (length (filter p m) <= length (filter q m))%nat).
  { induction m as [|x m IHm]; [apply le_n|]. cbn [filter]. destruct (p x) eqn:E.
    - rewrite (Hpq x E). cbn [length]. lia.
    - destruct (q x); cbn [length]; lia. }
  induction l as [|x l IH]; [contradiction|]. cbn [filter]. destruct Hin as [E|Hin].
  - subst x. rewrite Hpa, Hqa. cbn [length]. specialize (Hle l). lia.
  - specialize (IH Hin). destruct (p x) eqn:E.
    + rewrite (Hpq x E). cbn [length]. lia.
    + destruct (q x); cbn [length]; lia.
Qed.

Lemma rank_lt l a b : In a l -> bltb a b = true -> rank l a < rank l b.
Proof.
  intros Hin Hab. unfold rank.
  assert (H : (length (filter (fun x => bltb x a) (dedup l)) < length (filter (fun x => bltb x b) (dedup l)))%nat).
  { apply (filter_length_lt _ _ a).
    - intros x Hx. eapply bltb_trans; eassumption.
    - apply (proj1 (In_dedup a l)). exact Hin.
    - apply bltb_irrefl.
    - exact Hab. }
  lia.
Qed.

Lemma rank_inj l a b : In a l -> In b l -> rank l a = rank l b -> a = b.
Proof.
  intros Ha Hb E. destruct (bltb_total a b) as [H|[H|H]]; [exact H| |].
  - pose proof (rank_lt l a b Ha H). lia.
  - pose proof (rank_lt l b a Hb H). lia.
Qed.

Lemma names_ok_spec nm :
  names_ok nm = true -> In s_default_id (nm_affs nm) /\ rank (nm_affs nm) s_default_id <= default_id.
Proof.
  unfold names_ok. rewrite andb_true_iff, N.leb_le. intros [H1 H2]. split; [apply bmem_In; exact H1|exact H2].
Qed.

Lemma aff_num_eq nm id :
  names_ok nm = true ->
  Z.of_N (aff_num nm id) = (Z.of_N default_id + Z.of_N (rank (nm_affs nm) id) - Z.of_N (rank (nm_affs nm) s_default_id))%Z.
Proof.
  intros H. apply names_ok_spec in H as [_ H]. unfold aff_num. rewrite Z2N.id; [reflexivity|lia].
Qed.

Lemma aff_num_default nm : names_ok nm = true -> aff_num nm s_default_id = default_id.
Proof. intros H. pose proof (aff_num_eq nm s_default_id H). lia. Qed.

(* af_id a < af_id b  <->  id string a < id string b *)
Theorem aff_num_order nm a b :
  names_ok nm = true -> In a (nm_affs nm) -> In b (nm_affs nm) ->
  (aff_num nm a < aff_num nm b <-> bltb a b = true).
Proof.
  intros Hok Ha Hb. pose proof (aff_num_eq nm a Hok) as Ea. pose proof (aff_num_eq nm b Hok) as Eb.
  split.
  - intros Hlt. destruct (bltb_total a b) as [H|[H|H]]; [subst; lia|exact H|].
    pose proof (rank_lt _ b a Hb H). lia.
  - intros H. pose proof (rank_lt _ a b Ha H). lia.
Qed.

Lemma aff_num_inj nm a b :
  names_ok nm = true -> In a (nm_affs nm) -> In b (nm_affs nm) -> aff_num nm a = aff_num nm b -> a = b.
Proof.
  intros Hok Ha Hb E. pose proof (aff_num_eq nm a Hok) as Ea. pose proof (aff_num_eq nm b Hok) as Eb.
  apply (rank_inj (nm_affs nm)); [assumption|assumption|lia].
Qed.

Theorem sec_num_inj nm a b :
  In a (nm_secs nm) -> In b (nm_secs nm) -> sec_num nm a = sec_num nm b -> a = b.
Proof. apply rank_inj. Qed.

(* ---- registered() as a function of the affiliate number ---- *)
Definition regof (nm : naming) (n : N) : bool :=
  existsb (fun id => (aff_num nm id =? n) && has_R id) (nm_affs nm).

Lemma regof_default nm : names_ok nm = true -> regof nm default_id = false.
Proof.
  intros Hok. unfold regof. apply not_true_is_false. intros H.
  apply existsb_exists in H as [id [Hin H]]. apply andb_true_iff in H as [H1 H2]. apply N.eqb_eq in H1.
  destruct (names_ok_spec nm Hok) as [Hd _].
  rewrite <- (aff_num_default nm Hok) in H1. apply (aff_num_inj nm id s_default_id Hok Hin Hd) in H1.
  subst id. vm_compute in H2. discriminate.
Qed.

Lemma regof_member nm a :
  names_ok nm = true -> In (a_id a) (nm_affs nm) -> aff_wf a ->
  a_reg a = regof nm (aff_num nm (a_id a)).
Proof.
  intros Hok Hin Hw. unfold regof. rewrite Hw. destruct (has_R (a_id a)) eqn:E.
  - symmetry. apply existsb_exists. exists (a_id a). split; [exact Hin|]. rewrite N.eqb_refl, E. reflexivity.
  - symmetry. apply not_true_is_false. intros H.
    apply existsb_exists in H as [id [Hi H]]. apply andb_true_iff in H as [H1 H2]. apply N.eqb_eq in H1.
    apply (aff_num_inj nm id (a_id a) Hok Hi Hin) in H1. subst id. congruence.
Qed.

Lemma naming_of_member inits txs t :
  In t txs -> aff_is_global (x_af t) = false -> In (a_id (x_af t)) (nm_affs (naming_of inits txs)).
Proof.
  intros Hin Hg. cbn [naming_of nm_affs]. right. apply in_map_iff. exists t. split; [reflexivity|].
  apply filter_In. split; [exact Hin|]. rewrite Hg. reflexivity.
Qed.

(* Rows that parse: every ledger row produced from the cells of the files
   satisfies [valid_tx] of Model/Tx.v, and the registered flag of its
   affiliate is a function of the affiliate number (the [row_ok'] / [goodaf]
   hypothesis of the ledger theorems), false at [default_id] - for every row
   not addressed to the pseudo-affiliate "__global__" (those rows are
   replaced by App.replace_global_splits before the ledger sees them). *)
Theorem valid_rows_after_parse tbl fs ri0 txs tbl' inits :
  tbl_wf tbl -> read_files tbl fs ri0 = Ok (txs, tbl') ->
  let nm := naming_of inits txs in
  names_ok nm = true ->
  Forall (fun r => Tx.valid_tx r = true) (map (abs_tx nm) txs)
  /\ regof nm default_id = false
  /\ Forall (fun r => t_glob r = false -> af_reg (t_af r) = regof nm (af_id (t_af r))) (map (abs_tx nm) txs).
Proof.
  intros Hw H nm Hok. destruct (read_files_good _ _ _ _ _ H Hw) as [Hg _].
  split; [|split].
  - apply Forall_map. eapply Forall_impl; [|exact Hg]. intros t [Hv _]. exact Hv.
  - apply regof_default. exact Hok.
  - apply Forall_map. rewrite Forall_forall in *. intros t Hin Hglob.
    cbn [abs_tx t_glob t_af abs_aff af_reg af_id] in *.
    apply regof_member; [exact Hok| |exact (proj2 (Hg t Hin))].
    apply naming_of_member; assumption.
Qed.

(* the start-up table of the process (empty) is well formed *)
Lemma tbl_wf_nil : tbl_wf [].
Proof. constructor. Qed.

(* ---- the rows the ledger is run on (after replace_global_splits) ---- *)
Section RunRows.
  Variable P : aff -> Prop.
  Lemma add_aff_Forall a l : P a -> Forall P l -> Forall P (add_aff a l).
  Proof.
    intros Ha Hl. induction Hl as [|b l Hb Hl IH]; cbn [add_aff]; [constructor; [exact Ha|constructor]|].
    destruct (aff_eqb a b); constructor; assumption.
  Qed.
  Lemma ins_aff_Forall a l : P a -> Forall P l -> Forall P (ins_aff a l).
  Proof.
    intros Ha Hl. induction Hl as [|b l Hb Hl IH]; cbn [ins_aff]; [constructor; [exact Ha|constructor]|].
    destruct (N.leb _ _); constructor; try assumption. constructor; assumption.
  Qed.
  Lemma sort_affs_Forall l : Forall P l -> Forall P (sort_affs l).
  Proof.
    intros Hl. unfold sort_affs. induction Hl as [|b l Hb Hl IH]; cbn [fold_right]; [constructor|].
    apply ins_aff_Forall; assumption.
  Qed.
  Lemma holders_fold_Forall (l : list tx) : forall init,
    Forall P init -> Forall (fun t => t_glob t = false -> P (t_af t)) l ->
    Forall P (fold_left (fun acc t => if t_glob t then acc else add_aff (t_af t) acc) l init).
  Proof.
    induction l as [|t l IH]; intros init Hi Hl; [exact Hi|]. cbn [fold_left].
    inversion Hl as [|t0 l0 Ht Hl']; subst. apply IH; [|exact Hl'].
    destruct (t_glob t) eqn:E; [exact Hi|]. apply add_aff_Forall; [apply Ht; reflexivity|exact Hi].
  Qed.
End RunRows.

Lemma insert_tx_Forall (Q : tx -> Prop) t l : Q t -> Forall Q l -> Forall Q (insert_tx t l).
Proof.
  intros Ht Hl. induction Hl as [|h l Hh Hl IH]; cbn [insert_tx]; [constructor; [exact Ht|constructor]|].
  destruct (tx_leb t h); constructor; try assumption. constructor; assumption.
Qed.
Lemma sort_txs_Forall (Q : tx -> Prop) l : Forall Q l -> Forall Q (sort_txs l).
Proof.
  intros Hl. unfold sort_txs. induction Hl as [|h l Hh Hl IH]; cbn [fold_right]; [constructor|].
  apply insert_tx_Forall; assumption.
Qed.
Lemma filter_Forall {T} (Q : T -> Prop) f l : Forall Q l -> Forall Q (filter f l).
Proof.
  intros Hl. induction Hl as [|h l Hh Hl IH]; cbn [filter]; [constructor|].
  destruct (f h); [constructor|]; assumption.
Qed.

Lemma is_split_abs a : is_split (abs_act a) = is_xsplit a.
Proof. destruct a; reflexivity. Qed.

(* no row other than a split is addressed to the pseudo-affiliate *)
Definition only_splits_global (txs : list ctx) : Prop :=
  Forall (fun t => aff_is_global (x_af t) = true -> is_xsplit (x_act t) = true) txs.

Theorem run_rows_ok tbl fs ri0 txs tbl' inits s hi l :
  tbl_wf tbl -> read_files tbl fs ri0 = Ok (txs, tbl') ->
  let nm := naming_of inits txs in
  names_ok nm = true -> only_splits_global txs ->
  replace_global_splits hi (txs_of_sec s (sort_txs (map (abs_tx nm) txs))) = Ok l ->
  Forall (fun r => Tx.valid_tx r = true /\ af_reg (t_af r) = regof nm (af_id (t_af r))) l.
Proof.
  intros Hw Hrd nm Hok Hg Hrep.
  pose proof (valid_rows_after_parse tbl fs ri0 txs tbl' inits Hw Hrd) as H0. cbv zeta in H0.
  destruct (H0 Hok) as (Hv & Hd & Hr). clear H0.
  fold nm in Hv, Hd, Hr.
  set (G := fun a : aff => af_reg a = regof nm (af_id a)).
  set (R := fun r : tx => Tx.valid_tx r = true /\ (t_glob r = false -> G (t_af r))
                           /\ (t_glob r = true -> is_split (t_act r) = true)).
  assert (HR : Forall R (map (abs_tx nm) txs)).
  { unfold only_splits_global in Hg. rewrite Forall_forall in *. intros r Hin. split; [apply Hv; exact Hin|]. split; [apply Hr; exact Hin|].
    apply in_map_iff in Hin as [t [E Hin]]. subst r. cbn [abs_tx t_glob t_act]. rewrite is_split_abs.
    apply Hg. exact Hin. }
  set (L := txs_of_sec s (sort_txs (map (abs_tx nm) txs))) in *.
  assert (HL : Forall R L).
  { unfold L, txs_of_sec. apply filter_Forall, sort_txs_Forall. exact HR. }
  unfold replace_global_splits in Hrep.
  destruct (negb (global_split_check [] L)); [discriminate|].
  destruct (existsb (fun t => is_split (t_act t) && t_glob t) L) eqn:Ex; cbn [negb] in Hrep.
  - inversion Hrep; subst l. clear Hrep.
    assert (Haffs : Forall G (match holders hi L with [] => [default_aff] | a => a end)).
    { assert (Hh : Forall G (holders hi L)).
      { unfold holders. apply sort_affs_Forall. apply holders_fold_Forall.
        - destruct hi; [constructor; [|constructor]|constructor]. unfold G. cbn [default_aff af_reg af_id].
          symmetry. exact Hd.
        - eapply Forall_impl; [|exact HL]. intros r (_ & H & _). exact H. }
      destruct (holders hi L); [|exact Hh]. constructor; [|constructor].
      unfold G. cbn [default_aff af_reg af_id]. symmetry. exact Hd. }
    clear Ex. clearbody L. set (affs := match holders hi L with [] => [default_aff] | a => a end) in *. clearbody affs.
    unfold expand_with. induction HL as [|r L (Hv1 & Hg1 & Hs1) HL IH]; cbn [flat_map]; [constructor|].
    apply Forall_app. split; [|exact IH].
    destruct (is_split (t_act r) && t_glob r) eqn:E.
    + apply Forall_map. eapply Forall_impl; [|exact Haffs]. intros a Ha.
      unfold with_aff, Tx.valid_tx. cbn [t_act t_af]. split; [exact Hv1|exact Ha].
    + constructor; [|constructor]. split; [exact Hv1|]. apply Hg1.
      destruct (t_glob r) eqn:Eg; [|reflexivity]. rewrite (Hs1 eq_refl) in E. discriminate.
  - inversion Hrep; subst l. clear Hrep.
    induction HL as [|r L (Hv1 & Hg1 & Hs1) HL IH]; [constructor|].
    cbn [existsb] in Ex. apply orb_false_iff in Ex as [E1 E2].
    constructor; [|apply IH; exact E2]. split; [exact Hv1|]. apply Hg1.
    destruct (t_glob r) eqn:Eg; [|reflexivity]. rewrite (Hs1 eq_refl) in E1. discriminate.
Qed.
