(* Table level of C11: reading the table written for a valid transaction list
   gives the same transactions back (up to the stated exceptions), and writing
   them again gives the same cells outside two executable classes. *)
From Coq Require Import List NArith ZArith Bool Arith Lia.
From ACB Require Import Base.Outcome Model.CsvFields Model.CsvTable Proofs.CsvDigits Proofs.CsvFieldProps.
Import ListNotations.
Local Open Scope N_scope.

(* ---------------------------------------------------------------- columns *)
Lemma col_eqb_spec a b : reflect (a = b) (col_eqb a b).
Proof. destruct a, b; cbn; constructor; congruence. Qed.
Lemma col_eqb_refl a : col_eqb a a = true.
Proof. destruct a; reflexivity. Qed.

Lemma col_header_name c : col_of_name (trim (lower (col_name c))) = Some c.
Proof. destruct c; vm_compute; reflexivity. Qed.

Lemma header_cols_names hdr : header_cols (map col_name hdr) = map Some hdr.
Proof.
  unfold header_cols. rewrite map_map. apply map_ext. intros c. apply col_header_name.
Qed.

Definition inhdr (hdr : list col) (k : col) : bool := existsb (col_eqb k) hdr.
Lemma inhdr_In hdr k : inhdr hdr k = true <-> In k hdr.
Proof.
  unfold inhdr. rewrite existsb_exists. split.
  - intros [x [Hx E]]. destruct (col_eqb_spec k x); [subst; assumption|discriminate].
  - intros H. exists k. split; [assumption|apply col_eqb_refl].
Qed.

Lemma export_nodup : NoDup export_cols.
Proof. repeat (constructor; [cbn; intuition discriminate|]). constructor. Qed.

Lemma header_props dflt vs :
  let hdr := table_header dflt vs in
  NoDup hdr /\ ~ In KLegacy hdr
  /\ (forall k, In k export_cols -> col_optional k = false -> inhdr hdr k = true)
  /\ (forall k, inhdr hdr k = true -> col_optional k = true -> col_in_use dflt vs k = true)
  /\ (forall k, In k export_cols -> col_in_use dflt vs k = true -> inhdr hdr k = true).
Proof.
  cbv zeta. unfold table_header. repeat split.
  - apply NoDup_filter, export_nodup.
  - intros H. apply filter_In in H. destruct H as [H _]. cbn in H. intuition discriminate.
  - intros k Hk Ho. apply inhdr_In, filter_In. split; [assumption|]. rewrite Ho. reflexivity.
  - intros k Hk Ho. apply inhdr_In, filter_In in Hk. destruct Hk as [_ Hk]. rewrite Ho in Hk. exact Hk.
  - intros k Hk Hu. apply inhdr_In, filter_In. split; [assumption|]. rewrite Hu. apply orb_true_r.
Qed.

Lemma has_col_map hdr k : has_col k (map Some hdr) = inhdr hdr k.
Proof.
  unfold has_col, inhdr. induction hdr as [|h r IH]; [reflexivity|]. cbn [map existsb]. rewrite IH. reflexivity.
Qed.

(* ---------------------------------------------------------------- one record *)
Definition nonblank (s : bytes) : option bytes := let t := trim s in if is_nil t then None else Some t.

Lemma lookup_app k a b :
  lookup k (a ++ b) = match lookup k a with Some v => Some v | None => lookup k b end.
Proof.
  induction a as [|[k' v] a IH]; [reflexivity|]. cbn [app lookup]. destruct (col_eqb k k'); [reflexivity|exact IH].
Qed.

Lemma lookup_row_notin hdr f k :
  ~ In k hdr -> lookup k (row_values (map Some hdr) (map f hdr)) = None.
Proof.
  induction hdr as [|h hr IH]; intros Hn; [reflexivity|]. cbn [map row_values].
  assert (Hk : col_eqb k h = false) by (destruct (col_eqb_spec k h); [subst; exfalso; apply Hn; left; reflexivity|reflexivity]).
  assert (Hr : ~ In k hr) by (intros H; apply Hn; right; exact H).
  destruct (is_nil (trim (f h))); [apply IH; exact Hr|].
  rewrite lookup_app, (IH Hr). cbn [lookup]. rewrite Hk. reflexivity.
Qed.

Lemma lookup_row hdr f k :
  NoDup hdr ->
  lookup k (row_values (map Some hdr) (map f hdr)) = if inhdr hdr k then nonblank (f k) else None.
Proof.
  induction hdr as [|h hr IH]; intros Hnd; [reflexivity|]. inversion Hnd as [|? ? Hnh Hnd']; subst.
  cbn [map row_values]. unfold inhdr. cbn [existsb]. fold (inhdr hr k).
  destruct (col_eqb_spec k h) as [->|Hne].
  - cbn [orb]. unfold nonblank. destruct (is_nil (trim (f h))) eqn:En.
    + apply lookup_row_notin. exact Hnh.
    + rewrite lookup_app, (lookup_row_notin hr f h Hnh). cbn [lookup]. rewrite col_eqb_refl. reflexivity.
  - cbn [orb]. destruct (is_nil (trim (f h))).
    + apply IH. exact Hnd'.
    + rewrite lookup_app, (IH Hnd'). destruct (inhdr hr k).
      * destruct (nonblank (f k)); [reflexivity|]. cbn [lookup].
        destruct (col_eqb_spec k h); [contradiction|reflexivity].
      * cbn [lookup]. destruct (col_eqb_spec k h); [contradiction|reflexivity].
Qed.

Lemma nonblank_edges s : edges_ok s = true -> nonblank s = Some s.
Proof. intros H. destruct (trim_edges s H) as [Ht Hn]. unfold nonblank. rewrite Ht, Hn. reflexivity. Qed.
Lemma nonblank_nil : nonblank [] = None.
Proof. reflexivity. Qed.

(* ---------------------------------------------------------------- validity of a CsvTx *)
Definition ovalid {T} (P : T -> bool) (o : option T) : Prop := forall x, o = Some x -> P x = true.

Record csv_valid (tbl : aftable) (v : csvtx) : Prop := {
  cv_sec : ovalid valid_sec (v_sec v);
  cv_td : ovalid valid_date (v_td v);
  cv_sd : ovalid valid_date (v_sd v);
  cv_sh : ovalid valid_dec (v_sh v);
  cv_aps : ovalid valid_dec (v_aps v);
  cv_com : ovalid valid_dec (v_com v);
  cv_cur : ovalid valid_cur (v_cur v);
  cv_fx : ovalid valid_dec (v_fx v);
  cv_ccur : ovalid valid_cur (v_ccur v);
  cv_cfx : ovalid valid_dec (v_cfx v);
  cv_af : ovalid (valid_aff tbl) (v_af v);
  cv_sfl : ovalid valid_sfl (v_sfl v);
  cv_ratio : ovalid valid_ratio (v_ratio v)
}.

Lemma ovalid_some {T} (P : T -> bool) x : P x = true -> ovalid P (Some x).
Proof. intros H y E. inversion E; subst. exact H. Qed.
Lemma ovalid_none {T} (P : T -> bool) : ovalid P None.
Proof. intros y E. discriminate. Qed.

Lemma valid_car_parts c :
  valid_car c = true ->
  valid_cur (c_cur c) = true /\ valid_dec (c_rate c) = true /\ dec_pos (c_rate c) = true
  /\ (car_is_default c = true -> dec_is_one (c_rate c) = true).
Proof.
  unfold valid_car. rewrite !andb_true_iff, orb_true_iff, negb_true_iff. intros [[[H1 H2] H3] H4].
  repeat split; auto. intros Hd. destruct H4 as [H4|H4]; [congruence|exact H4].
Qed.

Lemma rate_opt_valid c : valid_car c = true -> ovalid valid_dec (rate_opt c).
Proof.
  intros H. destruct (valid_car_parts c H) as [_ [H2 _]]. unfold rate_opt.
  destruct (car_is_default c); [apply ovalid_none|apply ovalid_some; exact H2].
Qed.

Lemma to_csvtx_valid tbl t : valid_tx tbl t = true -> csv_valid tbl (to_csvtx t).
Proof.
  unfold valid_tx. rewrite !andb_true_iff. intros [[[[Hs Htd] Hsd] Ha] Haf].
  unfold to_csvtx. destruct (x_act t) as [sh aps com cr ccr|sh aps com cr ccr sfl|aps cr|sh aps|r];
    cbn [valid_act] in Ha; rewrite ?andb_true_iff in Ha.
  - destruct Ha as [[[[[[[V1 P1] V2] P2] V3] P3] Vc] Vcc].
    destruct (valid_car_parts _ Vc) as [Vcur _].
    constructor; cbn; try (apply ovalid_some; assumption); try apply ovalid_none; try (apply rate_opt_valid; assumption).
    + destruct ccr as [c|]; [|apply ovalid_none]. cbn in Vcc. destruct (valid_car_parts _ Vcc) as [Vcur' _].
      apply ovalid_some; assumption.
    + destruct ccr as [c|]; [|apply ovalid_none]. cbn in Vcc. apply rate_opt_valid; assumption.
  - destruct Ha as [[[[[[[[V1 P1] V2] P2] V3] P3] Vc] Vcc] Vs].
    destruct (valid_car_parts _ Vc) as [Vcur _].
    constructor; cbn; try (apply ovalid_some; assumption); try apply ovalid_none; try (apply rate_opt_valid; assumption).
    + destruct ccr as [c|]; [|apply ovalid_none]. cbn in Vcc. destruct (valid_car_parts _ Vcc) as [Vcur' _].
      apply ovalid_some; assumption.
    + destruct ccr as [c|]; [|apply ovalid_none]. cbn in Vcc. apply rate_opt_valid; assumption.
    + destruct sfl as [v|]; [apply ovalid_some; assumption|apply ovalid_none].
  - destruct Ha as [[V1 P1] Vc]. destruct (valid_car_parts _ Vc) as [Vcur _].
    constructor; cbn; try (apply ovalid_some; assumption); try apply ovalid_none; try (apply rate_opt_valid; assumption).
  - destruct Ha as [[[V1 P1] V2] P2].
    constructor; cbn; try (apply ovalid_some; assumption); try apply ovalid_none.
  - constructor; cbn; try (apply ovalid_some; assumption); try apply ovalid_none.
Qed.

(* ---------------------------------------------------------------- the re-read CsvTx *)
Definition reread (hasaf : bool) (v : csvtx) (ri : N) : csvtx :=
  {| v_sec := v_sec v; v_td := v_td v; v_sd := v_sd v; v_act := v_act v;
     v_sh := option_map (rp_dec 0) (v_sh v); v_aps := option_map (rp_dec 2) (v_aps v);
     v_com := option_map (rp_dec 2) (v_com v);
     v_cur := v_cur v; v_fx := option_map (rp_dec 0) (v_fx v);
     v_ccur := v_ccur v; v_cfx := option_map (rp_dec 0) (v_cfx v);
     v_memo := match v_memo v with Some m => nonblank m | None => None end;
     v_af := if hasaf then v_af v else None;
     v_sfl := option_map rp_sfl (v_sfl v); v_ratio := option_map rp_ratio (v_ratio v); v_ri := ri |}.

Lemma opt_parse_show {T} (f : bytes -> res T) (show : T -> bytes) (rp : T -> T) (o : option T) :
  (forall x, o = Some x -> f (show x) = Ok (rp x)) ->
  opt_parse f (option_map show o) = Ok (option_map rp o).
Proof. intros H. destruct o as [x|]; [|reflexivity]. cbn. rewrite (H x eq_refl). reflexivity. Qed.

(* lookup of a column whose cell is the rendering of an optional field *)
Lemma lookup_field {T} hdr (v : csvtx) k (show : T -> bytes) (fld : option T) :
  NoDup hdr ->
  cell v k = oshow show fld ->
  (is_some fld = true -> inhdr hdr k = true) ->
  (forall x, fld = Some x -> edges_ok (show x) = true) ->
  lookup k (row_values (map Some hdr) (map (cell v) hdr)) = option_map show fld.
Proof.
  intros Hnd Hc Hin He. rewrite lookup_row by assumption. rewrite Hc.
  destruct fld as [x|]; cbn [oshow option_map].
  - rewrite (Hin eq_refl). apply nonblank_edges, He. reflexivity.
  - destruct (inhdr hdr k); reflexivity.
Qed.

Lemma valid_sec_edges s : valid_sec s = true -> nonblank s = Some s.
Proof.
  unfold valid_sec. rewrite andb_true_iff, negb_true_iff. intros [Hn Ht]. apply beqb_eq in Ht.
  unfold nonblank. rewrite Ht, Hn. reflexivity.
Qed.

Lemma affdata_eqb_eq a b : affdata_eqb a b = true -> a = b.
Proof.
  unfold affdata_eqb. rewrite !andb_true_iff. intros [[H1 H2] H3].
  apply beqb_eq in H1, H2. apply eqb_prop in H3. destruct a, b; cbn in *; subst; reflexivity.
Qed.
Lemma affdata_eqb_refl a : affdata_eqb a a = true.
Proof. unfold affdata_eqb. rewrite !beqb_refl, eqb_reflx. reflexivity. Qed.

Lemma valid_aff_intern tbl a :
  valid_aff tbl a = true ->
  nonblank (a_name a) = Some (a_name a) /\ intern tbl (a_name a) = (a, tbl) /\ tbl_find (a_id a) tbl = Some a.
Proof.
  unfold valid_aff. rewrite !andb_true_iff, negb_true_iff. intros [[[Hf Hn] Ht] Hid].
  apply beqb_eq in Ht, Hid.
  destruct (tbl_find (a_id a) tbl) as [b|] eqn:Ef; [|discriminate]. apply affdata_eqb_eq in Hf. subst b.
  repeat split.
  - unfold nonblank. rewrite Ht, Hn. reflexivity.
  - unfold intern. rewrite Hid, Ef. reflexivity.
Qed.

(* ---------------------------------------------------------------- reading one written record *)
Lemma row_reread tbl hdr v ri (hasaf : bool) :
  NoDup hdr -> ~ In KLegacy hdr -> csv_valid tbl v ->
  (forall k, In k export_cols -> col_optional k = false -> inhdr hdr k = true) ->
  (is_some (v_fx v) = true -> inhdr hdr KFx = true) ->
  (is_some (v_ccur v) = true -> inhdr hdr KCcur = true) ->
  (is_some (v_cfx v) = true -> inhdr hdr KCfx = true) ->
  (is_some (v_sfl v) = true -> inhdr hdr KSfl = true) ->
  (is_some (v_ratio v) = true -> inhdr hdr KRatio = true) ->
  inhdr hdr KAf = hasaf -> (hasaf = true -> is_some (v_af v) = true) ->
  csvtx_from_values tbl (row_values (map Some hdr) (map (cell v) hdr)) ri = Ok (reread hasaf v ri, tbl).
Proof.
  intros Hnd Hleg CV Hreq Hfx Hccur Hcfx Hsfl Hratio Haf Hafsome.
  set (vals := row_values (map Some hdr) (map (cell v) hdr)).
  assert (Lsec : lookup KSec vals = v_sec v).
  { unfold vals. rewrite lookup_row by assumption. rewrite (Hreq KSec) by (cbn; auto 20).
    cbn [cell]. destruct (v_sec v) as [s|] eqn:E; cbn [oshow]; [|reflexivity].
    apply valid_sec_edges. apply (cv_sec _ _ CV). exact E. }
  assert (Ltd : lookup KTd vals = option_map show_date (v_td v)).
  { apply lookup_field; [assumption|reflexivity|intros _; apply Hreq; cbn; auto 20|].
    intros x E. apply date_roundtrip. apply (cv_td _ _ CV). exact E. }
  assert (Lsd : lookup KSd vals = option_map show_date (v_sd v)).
  { apply lookup_field; [assumption|reflexivity|intros _; apply Hreq; cbn; auto 20|].
    intros x E. apply date_roundtrip. apply (cv_sd _ _ CV). exact E. }
  assert (Lleg : lookup KLegacy vals = None).
  { apply lookup_row_notin. exact Hleg. }
  assert (Lact : lookup KAct vals = option_map show_act (v_act v)).
  { apply lookup_field; [assumption|reflexivity|intros _; apply Hreq; cbn; auto 20|].
    intros x _. apply act_roundtrip. }
  assert (Lsh : lookup KSh vals = option_map (tsmp 0) (v_sh v)).
  { apply lookup_field; [assumption|reflexivity|intros _; apply Hreq; cbn; auto 20|]. intros; apply tsmp_edges. }
  assert (Laps : lookup KAps vals = option_map (tsmp 2) (v_aps v)).
  { apply lookup_field; [assumption|reflexivity|intros _; apply Hreq; cbn; auto 20|]. intros; apply tsmp_edges. }
  assert (Lcom : lookup KCom vals = option_map (tsmp 2) (v_com v)).
  { apply lookup_field; [assumption|reflexivity|intros _; apply Hreq; cbn; auto 20|]. intros; apply tsmp_edges. }
  assert (Lcur : lookup KCur vals = v_cur v).
  { unfold vals. rewrite lookup_row by assumption. rewrite (Hreq KCur) by (cbn; auto 20).
    cbn [cell]. destruct (v_cur v) as [s|] eqn:E; cbn [oshow]; [|reflexivity].
    destruct (currency_roundtrip s (cv_cur _ _ CV s E)) as [_ [Ht Hn]].
    unfold nonblank. rewrite Ht, Hn. reflexivity. }
  assert (Lfx : lookup KFx vals = option_map (tsmp 0) (v_fx v)).
  { apply lookup_field; [assumption|reflexivity|assumption|]. intros; apply tsmp_edges. }
  assert (Lccur : lookup KCcur vals = v_ccur v).
  { unfold vals. rewrite lookup_row by assumption.
    cbn [cell]. destruct (v_ccur v) as [s|] eqn:E; cbn [oshow].
    - rewrite (Hccur eq_refl). destruct (currency_roundtrip s (cv_ccur _ _ CV s E)) as [_ [Ht Hn]].
      unfold nonblank. rewrite Ht, Hn. reflexivity.
    - destruct (inhdr hdr KCcur); reflexivity. }
  assert (Lcfx : lookup KCfx vals = option_map (tsmp 0) (v_cfx v)).
  { apply lookup_field; [assumption|reflexivity|assumption|]. intros; apply tsmp_edges. }
  assert (Lmemo : lookup KMemo vals = match v_memo v with Some m => nonblank m | None => None end).
  { unfold vals. rewrite lookup_row by assumption. rewrite (Hreq KMemo) by (cbn; auto 20).
    cbn [cell]. destruct (v_memo v) as [m|]; cbn [oshow]; [|reflexivity].
    unfold nonblank. rewrite trim_idem. reflexivity. }
  assert (Lsfl : lookup KSfl vals = option_map show_sfl (v_sfl v)).
  { apply lookup_field; [assumption|reflexivity|assumption|].
    intros x E. apply sfl_roundtrip. apply (cv_sfl _ _ CV). exact E. }
  assert (Lratio : lookup KRatio vals = option_map show_ratio (v_ratio v)).
  { apply lookup_field; [assumption|reflexivity|assumption|].
    intros x E. apply ratio_roundtrip. apply (cv_ratio _ _ CV). exact E. }
  assert (Laf : lookup KAf vals = if hasaf then option_map a_name (v_af v) else None).
  { unfold vals. rewrite lookup_row by assumption. rewrite Haf. destruct hasaf; [|reflexivity].
    cbn [cell]. destruct (v_af v) as [a|] eqn:E; cbn [oshow option_map]; [|reflexivity].
    apply (valid_aff_intern tbl a). apply (cv_af _ _ CV). exact E. }
  unfold csvtx_from_values. fold vals.
  rewrite Lsec, Ltd, Lsd, Lleg, Lact, Lsh, Laps, Lcom, Lcur, Lfx, Lccur, Lcfx, Lmemo, Lsfl, Lratio, Laf.
  rewrite (opt_parse_show parse_date show_date (fun x => x) (v_td v))
    by (intros x E; apply date_roundtrip; apply (cv_td _ _ CV); exact E).
  cbn [bind].
  rewrite (opt_parse_show parse_date show_date (fun x => x) (v_sd v))
    by (intros x E; apply date_roundtrip; apply (cv_sd _ _ CV); exact E).
  cbn [bind opt_parse].
  rewrite (opt_parse_show parse_act show_act (fun x => x) (v_act v)) by (intros x _; apply act_roundtrip).
  cbn [bind].
  rewrite (opt_parse_show parse_dec (tsmp 0) (rp_dec 0) (v_sh v))
    by (intros x E; apply rp_dec_spec; [apply (cv_sh _ _ CV); exact E|lia]).
  cbn [bind].
  rewrite (opt_parse_show parse_dec (tsmp 2) (rp_dec 2) (v_aps v))
    by (intros x E; apply rp_dec_spec; [apply (cv_aps _ _ CV); exact E|lia]).
  cbn [bind].
  rewrite (opt_parse_show parse_dec (tsmp 2) (rp_dec 2) (v_com v))
    by (intros x E; apply rp_dec_spec; [apply (cv_com _ _ CV); exact E|lia]).
  cbn [bind].
  rewrite (opt_parse_show parse_dec (tsmp 0) (rp_dec 0) (v_fx v))
    by (intros x E; apply rp_dec_spec; [apply (cv_fx _ _ CV); exact E|lia]).
  cbn [bind].
  rewrite (opt_parse_show parse_dec (tsmp 0) (rp_dec 0) (v_cfx v))
    by (intros x E; apply rp_dec_spec; [apply (cv_cfx _ _ CV); exact E|lia]).
  cbn [bind].
  assert (Ecur : forall o, ovalid valid_cur o -> option_map currency_new o = o).
  { intros o Ho. destruct o as [s|]; [|reflexivity]. cbn. f_equal. apply currency_roundtrip. apply Ho. reflexivity. }
  rewrite (Ecur _ (cv_cur _ _ CV)), (Ecur _ (cv_ccur _ _ CV)).
  assert (Eaf : (match (if hasaf then option_map a_name (v_af v) else None) with
                 | Some s => if is_nil (trim s) then (None, tbl)
                             else let '(a, t1) := intern tbl s in (Some a, t1)
                 | None => (None, tbl)
                 end) = (if hasaf then v_af v else None, tbl)).
  { destruct hasaf; [|reflexivity]. destruct (v_af v) as [a|] eqn:E; [|reflexivity]. cbn [option_map].
    destruct (valid_aff_intern tbl a (cv_af _ _ CV a E)) as [Hnb [Hi _]].
    unfold nonblank in Hnb. destruct (is_nil (trim (a_name a))); [discriminate|]. rewrite Hi. reflexivity. }
  rewrite Eaf.
  rewrite (opt_parse_show parse_sfl show_sfl rp_sfl (v_sfl v))
    by (intros x E; apply sfl_roundtrip; apply (cv_sfl _ _ CV); exact E).
  cbn [bind].
  rewrite (opt_parse_show parse_ratio show_ratio rp_ratio (v_ratio v))
    by (intros x E; apply ratio_roundtrip; apply (cv_ratio _ _ CV); exact E).
  cbn [bind]. unfold reread.
  assert (Eid : forall {T} (o : option T), option_map (fun x => x) o = o) by (intros T o; destruct o; reflexivity).
  rewrite !Eid. destruct (v_sd v); reflexivity.
Qed.

(* ---------------------------------------------------------------- Tx::try_from on the re-read record *)
Definition rp_car (c : car) : car :=
  if car_is_default c then car_default else {| c_cur := c_cur c; c_rate := rp_dec 0 (c_rate c) |}.
Definition rp_act (a : cact) : cact :=
  match a with
  | XBuy sh aps com cr ccr => XBuy (rp_dec 0 sh) (rp_dec 2 aps) (rp_dec 2 com) (rp_car cr) (option_map rp_car ccr)
  | XSell sh aps com cr ccr sfl =>
      XSell (rp_dec 0 sh) (rp_dec 2 aps) (rp_dec 2 com) (rp_car cr) (option_map rp_car ccr) (option_map rp_sfl sfl)
  | XRoc aps cr => XRoc (rp_dec 2 aps) (rp_car cr)
  | XSfla sh aps => XSfla (rp_dec 0 sh) (rp_dec 2 aps)
  | XSplit r => XSplit (rp_ratio r)
  end.
Definition retx (t : ctx) (af : affdata) (ri : N) : ctx :=
  {| x_sec := x_sec t; x_td := x_td t; x_sd := x_sd t; x_act := rp_act (x_act t);
     x_memo := trim (x_memo t); x_af := af; x_ri := ri |}.

Lemma rp_dec_same k d : valid_dec d = true -> (k <= 28)%nat -> dec_same d (rp_dec k d).
Proof. intros Hv Hk. apply rp_dec_spec; assumption. Qed.

Lemma ver_car c :
  valid_car c = true ->
  valid_exchange_rate (Some (c_cur c)) (option_map (rp_dec 0) (rate_opt c)) = Ok (Some (rp_car c)).
Proof.
  intros Hv. destruct (valid_car_parts c Hv) as [_ [Vr [Pr _]]].
  unfold rate_opt, rp_car, car_is_default, valid_exchange_rate.
  destruct (cur_is_default (c_cur c)) eqn:E; cbn [option_map is_some negb andb]; [reflexivity|].
  rewrite <- (dec_same_pos _ _ (rp_dec_same 0 _ Vr ltac:(lia))), Pr. reflexivity.
Qed.
Lemma ver_ocar o :
  valid_ocar o = true ->
  valid_exchange_rate (option_map c_cur o)
    (option_map (rp_dec 0) (match o with Some c => rate_opt c | None => None end))
  = Ok (option_map rp_car o).
Proof. destruct o as [c|]; [apply ver_car|reflexivity]. Qed.

Lemma memo_reread m : match nonblank m with Some m' => m' | None => [] end = trim m.
Proof. unfold nonblank. destruct (trim m); reflexivity. Qed.

Lemma default_id_data : a_id (from_strep_data []) = s_default_id.
Proof. reflexivity. Qed.

Lemma af_default_hit tbl a :
  valid_aff tbl a = true -> aff_is_default a = true -> af_default tbl = (a, tbl).
Proof.
  intros Hv Hd. destruct (valid_aff_intern tbl a Hv) as [_ [_ Hf]].
  unfold aff_is_default in Hd. apply beqb_eq in Hd.
  unfold af_default, intern. rewrite default_id_data, <- Hd, Hf. reflexivity.
Qed.

Lemma try_from_reread tbl t (hasaf : bool) ri :
  valid_tx tbl t = true ->
  (hasaf = false -> is_xsplit (x_act t) = false -> aff_is_default (x_af t) = true) ->
  tx_try_from tbl (reread hasaf (to_csvtx t) ri)
  = if hasaf then Ok (retx t (x_af t) ri, tbl)
    else if is_xsplit (x_act t) then (let '(g, tbl') := af_global tbl in Ok (retx t g ri, tbl'))
    else Ok (retx t (x_af t) ri, tbl).
Proof.
  intros Hv Hdef. pose proof Hv as Hv0.
  unfold valid_tx in Hv. rewrite !andb_true_iff in Hv. destruct Hv as [[[[Hs Htd] Hsd] Ha] Haf].
  assert (Hsec : is_nil (x_sec t) = false).
  { unfold valid_sec in Hs. apply andb_prop in Hs. destruct Hs as [Hs _]. apply negb_true_iff in Hs. exact Hs. }
  assert (Hafd : hasaf = false -> is_xsplit (x_act t) = false -> af_default tbl = (x_af t, tbl)).
  { intros E E'. apply af_default_hit; [exact Haf|apply Hdef; assumption]. }
  unfold tx_try_from, reread, to_csvtx, retx.
  destruct (x_act t) as [sh aps com cr ccr|sh aps com cr ccr sfl|aps cr|sh aps|r];
    cbn [valid_act] in Ha; rewrite ?andb_true_iff in Ha;
    cbn [v_act v_sh v_aps v_com v_cur v_fx v_ccur v_cfx v_memo v_af v_sfl v_ratio v_sec v_td v_sd v_ri
         option_map rp_act is_xsplit].
  - destruct Ha as [[[[[[[V1 P1] V2] P2] V3] P3] Vc] Vcc].
    unfold common_attrs, req.
    cbn [v_act v_sh v_aps v_com v_cur v_fx v_ccur v_cfx v_memo v_af v_sfl v_ratio v_sec v_td v_sd v_ri bind].
    rewrite (ver_car _ Vc), (ver_ocar _ Vcc). cbn [bind or_default].
    rewrite <- (dec_same_pos _ _ (rp_dec_same 0 _ V1 ltac:(lia))), P1.
    rewrite <- (dec_same_gez _ _ (rp_dec_same 2 _ V2 ltac:(lia))), P2.
    rewrite <- (dec_same_gez _ _ (rp_dec_same 2 _ V3 ltac:(lia))), P3.
    cbn [negb bind]. rewrite memo_reread, Hsec.
    destruct hasaf; [reflexivity|]. rewrite (Hafd eq_refl eq_refl). reflexivity.
  - destruct Ha as [[[[[[[[V1 P1] V2] P2] V3] P3] Vc] Vcc] Vs].
    unfold common_attrs, req.
    cbn [v_act v_sh v_aps v_com v_cur v_fx v_ccur v_cfx v_memo v_af v_sfl v_ratio v_sec v_td v_sd v_ri bind].
    rewrite (ver_car _ Vc), (ver_ocar _ Vcc). cbn [bind or_default].
    rewrite <- (dec_same_pos _ _ (rp_dec_same 0 _ V1 ltac:(lia))), P1.
    rewrite <- (dec_same_gez _ _ (rp_dec_same 2 _ V2 ltac:(lia))), P2.
    rewrite <- (dec_same_gez _ _ (rp_dec_same 2 _ V3 ltac:(lia))), P3.
    cbn [negb bind]. rewrite memo_reread, Hsec.
    destruct hasaf; [reflexivity|]. rewrite (Hafd eq_refl eq_refl). reflexivity.
  - destruct Ha as [[V1 P1] Vc]. unfold req.
    cbn [v_act v_sh v_aps v_com v_cur v_fx v_ccur v_cfx v_memo v_af v_sfl v_ratio v_sec v_td v_sd v_ri bind is_some].
    rewrite <- (dec_same_gez _ _ (rp_dec_same 2 _ V1 ltac:(lia))), P1. cbn [negb].
    rewrite (ver_car _ Vc). cbn [bind or_default]. rewrite memo_reread, Hsec.
    destruct hasaf; [reflexivity|]. rewrite (Hafd eq_refl eq_refl). reflexivity.
  - destruct Ha as [[[V1 P1] V2] P2]. unfold req.
    cbn [v_act v_sh v_aps v_com v_cur v_fx v_ccur v_cfx v_memo v_af v_sfl v_ratio v_sec v_td v_sd v_ri bind is_some
         valid_exchange_rate].
    rewrite <- (dec_same_pos _ _ (rp_dec_same 0 _ V1 ltac:(lia))), P1.
    rewrite <- (dec_same_pos _ _ (rp_dec_same 2 _ V2 ltac:(lia))), P2.
    cbn [negb bind]. rewrite memo_reread, Hsec.
    destruct hasaf; [reflexivity|]. rewrite (Hafd eq_refl eq_refl). reflexivity.
  - unfold req.
    cbn [v_act v_sh v_aps v_com v_cur v_fx v_ccur v_cfx v_memo v_af v_sfl v_ratio v_sec v_td v_sd v_ri bind].
    rewrite memo_reread, Hsec.
    destruct hasaf; [reflexivity|]. destruct (af_global tbl) as [g tbl']. reflexivity.
Qed.

(* ---------------------------------------------------------------- all records *)
Fixpoint reread_all (hasaf : bool) (vs : list csvtx) (ri : N) : list csvtx :=
  match vs with
  | [] => []
  | v :: r => reread hasaf v ri :: reread_all hasaf r (ri + 1)
  end.

Definition row_ok (tbl : aftable) (hdr : list col) (hasaf : bool) (v : csvtx) : Prop :=
  csv_valid tbl v
  /\ (is_some (v_fx v) = true -> inhdr hdr KFx = true)
  /\ (is_some (v_ccur v) = true -> inhdr hdr KCcur = true)
  /\ (is_some (v_cfx v) = true -> inhdr hdr KCfx = true)
  /\ (is_some (v_sfl v) = true -> inhdr hdr KSfl = true)
  /\ (is_some (v_ratio v) = true -> inhdr hdr KRatio = true)
  /\ (hasaf = true -> is_some (v_af v) = true).

Lemma parse_rows_written tbl hdr (hasaf : bool) vs : forall ri,
  NoDup hdr -> ~ In KLegacy hdr ->
  (forall k, In k export_cols -> col_optional k = false -> inhdr hdr k = true) ->
  inhdr hdr KAf = hasaf ->
  Forall (row_ok tbl hdr hasaf) vs ->
  parse_rows tbl (map Some hdr) (map (fun v => map (cell v) hdr) vs) ri = Ok (reread_all hasaf vs ri, tbl).
Proof.
  induction vs as [|v vs IH]; intros ri Hnd Hleg Hreq Haf HF; [reflexivity|].
  pose proof (Forall_inv HF) as Hv. pose proof (Forall_inv_tail HF) as HF'.
  destruct Hv as [CV [H1 [H2 [H3 [H4 [H5 H6]]]]]].
  cbn [map parse_rows reread_all]. rewrite !map_length, Nat.eqb_refl. cbn [negb].
  rewrite (row_reread tbl hdr v ri hasaf) by assumption. cbn [bind].
  rewrite IH by assumption. reflexivity.
Qed.

(* ---------------------------------------------------------------- the affiliate table only grows *)
Lemma tbl_find_id id t a : tbl_find id t = Some a -> a_id a = id.
Proof.
  induction t as [|b r IH]; cbn; [discriminate|]. destruct (beqb (a_id b) id) eqn:E.
  - intros H. inversion H; subst. apply beqb_eq. exact E.
  - exact IH.
Qed.
Lemma tbl_find_app id t d a : tbl_find id t = Some a -> tbl_find id (t ++ [d]) = Some a.
Proof.
  induction t as [|b r IH]; cbn; [discriminate|]. destruct (beqb (a_id b) id); [auto|exact IH].
Qed.
Lemma intern_grows tbl s a tbl' :
  intern tbl s = (a, tbl') -> forall id b, tbl_find id tbl = Some b -> tbl_find id tbl' = Some b.
Proof.
  unfold intern. destruct (tbl_find (a_id (from_strep_data s)) tbl).
  - intros H. inversion H; subst. auto.
  - intros H. inversion H; subst. intros id b. apply tbl_find_app.
Qed.
Lemma valid_aff_grows tbl tbl' a :
  (forall id b, tbl_find id tbl = Some b -> tbl_find id tbl' = Some b) ->
  valid_aff tbl a = true -> valid_aff tbl' a = true.
Proof.
  intros Hg. unfold valid_aff. rewrite !andb_true_iff. intros [[[Hf Hn] Ht] Hid].
  repeat split; auto. destruct (tbl_find (a_id a) tbl) as [b|] eqn:E; [|discriminate].
  rewrite (Hg _ _ E). exact Hf.
Qed.
Lemma valid_tx_grows tbl tbl' t :
  (forall id b, tbl_find id tbl = Some b -> tbl_find id tbl' = Some b) ->
  valid_tx tbl t = true -> valid_tx tbl' t = true.
Proof.
  intros Hg. unfold valid_tx. rewrite !andb_true_iff. intros [[[[H1 H2] H3] H4] H5].
  repeat split; auto. apply (valid_aff_grows tbl tbl'); assumption.
Qed.

Lemma global_is_global tbl : aff_is_global (fst (af_global tbl)) = true.
Proof.
  unfold af_global, intern. destruct (tbl_find (a_id (from_strep_data s_global)) tbl) as [b|] eqn:E.
  - cbn [fst]. unfold aff_is_global. rewrite (tbl_find_id _ _ _ E). reflexivity.
  - reflexivity.
Qed.

(* ---------------------------------------------------------------- Tx::try_from on all records *)
(* a row that names no affiliate: the default one, or a split for all affiliates *)
Definition unnamed_b (t : ctx) : bool :=
  aff_is_default (x_af t) || (is_xsplit (x_act t) && aff_is_global (x_af t)).

Lemma global_id_data : a_id (from_strep_data s_global) = s_global.
Proof. reflexivity. Qed.
Lemma af_global_hit tbl a :
  valid_aff tbl a = true -> aff_is_global a = true -> af_global tbl = (a, tbl).
Proof.
  intros Hv Hg. destruct (valid_aff_intern tbl a Hv) as [_ [_ Hf]].
  unfold aff_is_global in Hg. apply beqb_eq in Hg.
  unfold af_global, intern. rewrite global_id_data, <- Hg, Hf. reflexivity.
Qed.

(* what each transaction comes back as *)
Definition back (hasaf : bool) (t t' : ctx) (ri : N) : Prop :=
  exists af, t' = retx t af ri
    /\ ((af = x_af t /\ (hasaf = false -> is_xsplit (x_act t) = true -> aff_is_global (x_af t) = true))
        \/ (hasaf = false /\ is_xsplit (x_act t) = true /\ aff_is_default (x_af t) = true
            /\ aff_is_global af = true)).

Fixpoint backs (hasaf : bool) (txs txs' : list ctx) (ri : N) : Prop :=
  match txs, txs' with
  | [], [] => True
  | t :: r, t' :: r' => back hasaf t t' ri /\ backs hasaf r r' (ri + 1)
  | _, _ => False
  end.

Definition grows (tbl tbl' : aftable) : Prop :=
  forall id b, tbl_find id tbl = Some b -> tbl_find id tbl' = Some b.

Lemma try_from_all (hasaf : bool) txs : forall tbl ri,
  Forall (fun t => valid_tx tbl t = true) txs ->
  (hasaf = false -> Forall (fun t => unnamed_b t = true) txs) ->
  exists txs' tbl',
    txs_try_from tbl (reread_all hasaf (map to_csvtx txs) ri) = Ok (txs', tbl')
    /\ backs hasaf txs txs' ri /\ grows tbl tbl'.
Proof.
  induction txs as [|t txs IH]; intros tbl ri HV HD.
  - exists [], tbl. split; [reflexivity|]. split; [exact I|]. intros id b H. exact H.
  - pose proof (Forall_inv HV) as Hv. pose proof (Forall_inv_tail HV) as HV'.
    assert (Hu : hasaf = false -> unnamed_b t = true) by (intros E; exact (Forall_inv (HD E))).
    assert (HD' : hasaf = false -> Forall (fun t => unnamed_b t = true) txs)
      by (intros E; exact (Forall_inv_tail (HD E))).
    assert (Hd : hasaf = false -> is_xsplit (x_act t) = false -> aff_is_default (x_af t) = true).
    { intros E Es. specialize (Hu E). unfold unnamed_b in Hu. rewrite Es in Hu. cbn [andb] in Hu.
      rewrite orb_false_r in Hu. exact Hu. }
    assert (Hva : valid_aff tbl (x_af t) = true).
    { unfold valid_tx in Hv. rewrite !andb_true_iff in Hv. apply Hv. }
    cbn [map reread_all txs_try_from]. rewrite (try_from_reread tbl t hasaf ri Hv Hd).
    destruct hasaf.
    + cbn [bind]. destruct (IH tbl (ri + 1) HV' HD') as [txs' [tbl' [E [B G]]]]. rewrite E. cbn [bind].
      exists (retx t (x_af t) ri :: txs'), tbl'. split; [reflexivity|]. split; [|exact G]. split; [|exact B].
      exists (x_af t). split; [reflexivity|]. left. split; [reflexivity|discriminate].
    + destruct (is_xsplit (x_act t)) eqn:Es.
      * destruct (aff_is_global (x_af t)) eqn:Eglob.
        -- (* already a split for all affiliates: interned, the table does not change *)
           rewrite (af_global_hit tbl (x_af t) Hva Eglob). cbn [bind].
           destruct (IH tbl (ri + 1) HV' HD') as [txs' [tbl' [E [B G]]]]. rewrite E. cbn [bind].
           exists (retx t (x_af t) ri :: txs'), tbl'. split; [reflexivity|]. split; [|exact G]. split; [|exact B].
           exists (x_af t). split; [reflexivity|]. left. split; [reflexivity|]. intros _ _. exact Eglob.
        -- destruct (af_global tbl) as [g tbl1] eqn:Eg. cbn [bind].
           assert (Hg : grows tbl tbl1) by (unfold grows; apply (intern_grows tbl s_global g tbl1); exact Eg).
           assert (HV1 : Forall (fun t => valid_tx tbl1 t = true) txs).
           { apply Forall_forall. intros x Hx. apply (valid_tx_grows tbl tbl1); [exact Hg|].
             apply (proj1 (Forall_forall _ _) HV'). exact Hx. }
           destruct (IH tbl1 (ri + 1) HV1 HD') as [txs' [tbl' [E [B G]]]]. rewrite E. cbn [bind].
           exists (retx t g ri :: txs'), tbl'. split; [reflexivity|]. split.
           ++ split; [|exact B]. exists g. split; [reflexivity|]. right. repeat split; auto.
              ** specialize (Hu eq_refl). unfold unnamed_b in Hu. rewrite Eglob, andb_false_r, orb_false_r in Hu. exact Hu.
              ** pose proof (global_is_global tbl) as Gl. rewrite Eg in Gl. exact Gl.
           ++ intros id b H. apply G, Hg. exact H.
      * cbn [bind]. destruct (IH tbl (ri + 1) HV' HD') as [txs' [tbl' [E [B G]]]]. rewrite E. cbn [bind].
        exists (retx t (x_af t) ri :: txs'), tbl'. split; [reflexivity|]. split; [|exact G]. split; [|exact B].
        exists (x_af t). split; [reflexivity|]. left. split; [reflexivity|]. intros _ Hx. congruence.
Qed.

(* ---------------------------------------------------------------- "the same transaction" *)
Lemma dec_eqv_rp k d : valid_dec d = true -> (k <= 28)%nat -> dec_eqv d (rp_dec k d) = true.
Proof. intros Hv Hk. apply dec_eqv_same, rp_dec_same; assumption. Qed.

Lemma car_eqv_rp c : valid_car c = true -> car_eqv c (rp_car c) = true.
Proof.
  intros Hv. destruct (valid_car_parts c Hv) as [_ [Vr [Pr Hone]]].
  unfold car_eqv, rp_car. destruct (car_is_default c) eqn:E.
  - unfold car_is_default, cur_is_default in E. apply beqb_eq in E. rewrite E. cbn [c_cur c_rate car_default].
    rewrite beqb_refl. cbn [andb]. apply dec_eqv_same. specialize (Hone eq_refl).
    unfold dec_is_one in Hone. apply andb_prop in Hone. destruct Hone as [Hn Hm].
    apply negb_true_iff in Hn. apply N.eqb_eq in Hm. split; [exact Hn|].
    unfold dec_one. cbn [d_mant d_scale mk_dec]. rewrite Hm, pow10_0. lia.
  - cbn [c_cur c_rate]. rewrite beqb_refl. apply dec_eqv_rp; [exact Vr|lia].
Qed.
Lemma ocar_eqv_rp o : valid_ocar o = true -> ocar_eqv o (option_map rp_car o) = true.
Proof. destruct o as [c|]; [apply car_eqv_rp|reflexivity]. Qed.

Lemma act_eqv_rp a : valid_act a = true -> act_eqv a (rp_act a) = true.
Proof.
  destruct a as [sh aps com cr ccr|sh aps com cr ccr sfl|aps cr|sh aps|r]; cbn [valid_act rp_act act_eqv];
    intros Ha; rewrite ?andb_true_iff in Ha.
  - destruct Ha as [[[[[[[V1 P1] V2] P2] V3] P3] Vc] Vcc].
    rewrite !dec_eqv_rp, car_eqv_rp, ocar_eqv_rp by (assumption || lia). reflexivity.
  - destruct Ha as [[[[[[[[V1 P1] V2] P2] V3] P3] Vc] Vcc] Vs].
    rewrite !dec_eqv_rp, car_eqv_rp, ocar_eqv_rp by (assumption || lia). cbn [andb].
    destruct sfl as [v|]; [|reflexivity]. cbn [option_map sfl_eqv].
    destruct (sfl_roundtrip v Vs) as [_ [Hs _]]. rewrite (proj2 (dec_eqv_same _ _) Hs).
    cbn [rp_sfl sf_force]. rewrite eqb_reflx. reflexivity.
  - destruct Ha as [[V1 P1] Vc]. rewrite dec_eqv_rp, car_eqv_rp by (assumption || lia). reflexivity.
  - destruct Ha as [[[V1 P1] V2] P2]. rewrite !dec_eqv_rp by (assumption || lia). reflexivity.
  - destruct (ratio_roundtrip r Ha) as [_ [S1 [S2 [Hr _]]]]. unfold ratio_eqv.
    rewrite (proj2 (dec_eqv_same _ _) S1), (proj2 (dec_eqv_same _ _) S2), Hr, eqb_reflx. reflexivity.
Qed.

Lemma date_eqb_refl d : date_eqb d d = true.
Proof. unfold date_eqb. rewrite !N.eqb_refl. reflexivity. Qed.

Lemma back_same tbl (hasaf glob_ok : bool) t t' ri :
  valid_tx tbl t = true -> back hasaf t t' ri -> (hasaf = false -> glob_ok = true) ->
  tx_same glob_ok t t' = true /\ x_ri t' = ri.
Proof.
  intros Hv [af [-> Haf]] Hg. unfold valid_tx in Hv. rewrite !andb_true_iff in Hv.
  destruct Hv as [[[[Hs Htd] Hsd] Ha] Hva].
  split; [|reflexivity]. unfold tx_same, retx. cbn [x_sec x_td x_sd x_act x_memo x_af].
  rewrite !beqb_refl, !date_eqb_refl, (act_eqv_rp _ Ha). cbn [andb].
  destruct Haf as [[-> _]|[Hh [Hsp [Hd Hglob]]]].
  - rewrite affdata_eqb_refl. reflexivity.
  - rewrite (Hg Hh), Hsp, Hd, Hglob. apply orb_true_r.
Qed.

Lemma backs_same tbl (hasaf glob_ok : bool) txs : forall txs' ri,
  Forall (fun t => valid_tx tbl t = true) txs -> backs hasaf txs txs' ri ->
  (hasaf = false -> glob_ok = true) ->
  forall2b (tx_same glob_ok) txs txs' = true /\ ri_from ri txs' = true.
Proof.
  induction txs as [|t txs IH]; intros txs' ri HV HB Hg; destruct txs' as [|t' txs']; cbn in HB; try contradiction.
  - split; reflexivity.
  - destruct HB as [B1 B2]. pose proof (Forall_inv HV) as Hv. pose proof (Forall_inv_tail HV) as HV'.
    destruct (back_same tbl hasaf glob_ok t t' ri Hv B1 Hg) as [S R].
    destruct (IH txs' (ri + 1) HV' B2 Hg) as [S' R'].
    cbn [forall2b ri_from]. rewrite S, S', R, R', N.eqb_refl. split; reflexivity.
Qed.

(* ---------------------------------------------------------------- the affiliate column *)
Lemma dflt_eq tbl a :
  valid_aff tbl a = true -> affdata_eqb a (fst (af_default tbl)) = aff_is_default a.
Proof.
  intros Hv. destruct (valid_aff_intern tbl a Hv) as [_ [_ Hf]].
  unfold af_default, intern. rewrite default_id_data. unfold aff_is_default.
  destruct (tbl_find s_default_id tbl) as [b|] eqn:E; cbn [fst].
  - destruct (beqb (a_id a) s_default_id) eqn:Ed.
    + apply beqb_eq in Ed. rewrite Ed in Hf. rewrite Hf in E. inversion E; subst. apply affdata_eqb_refl.
    + unfold affdata_eqb. rewrite (tbl_find_id _ _ _ E), Ed. reflexivity.
  - destruct (beqb (a_id a) s_default_id) eqn:Ed.
    + apply beqb_eq in Ed. rewrite Ed in Hf. rewrite Hf in E. discriminate.
    + unfold affdata_eqb. rewrite default_id_data, Ed. reflexivity.
Qed.

Lemma v_af_some t : v_af (to_csvtx t) = Some (x_af t).
Proof. unfold to_csvtx; destruct (x_act t); reflexivity. Qed.

Lemma in_use_member dflt vs v k :
  In v vs ->
  match k with
  | KFx => is_some (v_fx v) | KCcur => is_some (v_ccur v) | KCfx => is_some (v_cfx v)
  | KSfl => is_some (v_sfl v) | KRatio => is_some (v_ratio v) | _ => false
  end = true ->
  col_in_use dflt vs k = true.
Proof.
  intros Hin H. destruct k; try discriminate; cbn [col_in_use]; apply existsb_exists; exists v; auto.
Qed.

Lemma rows_ok tbl dflt txs (hasaf : bool) :
  Forall (fun t => valid_tx tbl t = true) txs ->
  let vs := map to_csvtx txs in
  let hdr := table_header dflt vs in
  Forall (row_ok tbl hdr hasaf) vs.
Proof.
  intros HV vs hdr. apply Forall_forall. intros v Hv.
  destruct (header_props dflt vs) as [_ [_ [_ [_ Huse]]]]. fold hdr in Huse.
  unfold vs in Hv. apply in_map_iff in Hv. destruct Hv as [t [<- Ht]].
  assert (Hin : In (to_csvtx t) vs) by (apply in_map; exact Ht).
  split; [apply to_csvtx_valid; apply (proj1 (Forall_forall _ _) HV); exact Ht|].
  repeat split; intros H.
  - apply Huse; [cbn; auto 20|]. apply (in_use_member dflt vs _ KFx Hin H).
  - apply Huse; [cbn; auto 20|]. apply (in_use_member dflt vs _ KCcur Hin H).
  - apply Huse; [cbn; auto 20|]. apply (in_use_member dflt vs _ KCfx Hin H).
  - apply Huse; [cbn; auto 20|]. apply (in_use_member dflt vs _ KSfl Hin H).
  - apply Huse; [cbn; auto 20|]. apply (in_use_member dflt vs _ KRatio Hin H).
  - rewrite v_af_some. reflexivity.
Qed.

Lemma v_split_some t : v_is_split (to_csvtx t) = is_xsplit (x_act t).
Proof. unfold to_csvtx, v_is_split; destruct (x_act t); reflexivity. Qed.

(* the three tests of the column rule, on the CsvTx of a valid transaction *)
Lemma af_tests tbl t :
  valid_tx tbl t = true ->
  let dflt := fst (af_default tbl) in
  af_global_split (to_csvtx t) = is_xsplit (x_act t) && aff_is_global (x_af t)
  /\ af_named dflt (to_csvtx t) = negb (unnamed_b t)
  /\ af_default_split dflt (to_csvtx t)
     = negb (is_xsplit (x_act t) && aff_is_global (x_af t)) && aff_is_default (x_af t) && is_xsplit (x_act t).
Proof.
  intros Hv dflt. unfold valid_tx in Hv. rewrite !andb_true_iff in Hv. destruct Hv as [_ Hva].
  unfold af_global_split, af_named, af_default_split, unnamed_b.
  rewrite v_af_some, v_split_some. unfold dflt. rewrite (dflt_eq tbl (x_af t) Hva).
  repeat split; try reflexivity.
  destruct (is_xsplit (x_act t) && aff_is_global (x_af t)) eqn:E; cbn [negb andb].
  - rewrite orb_true_r. reflexivity.
  - rewrite orb_false_r. reflexivity.
Qed.

(* without the column every row is unnamed *)
Lemma no_column_unnamed tbl txs :
  Forall (fun t => valid_tx tbl t = true) txs ->
  col_in_use (fst (af_default tbl)) (map to_csvtx txs) KAf = false ->
  no_named_affiliate txs = true.
Proof.
  intros HV H. cbn [col_in_use] in H. apply orb_false_iff in H. destruct H as [H _].
  unfold no_named_affiliate. apply forallb_forall. intros t Ht. fold (unnamed_b t).
  assert (Hn : af_named (fst (af_default tbl)) (to_csvtx t) = false).
  { destruct (af_named (fst (af_default tbl)) (to_csvtx t)) eqn:E; [|reflexivity].
    assert (X : existsb (af_named (fst (af_default tbl))) (map to_csvtx txs) = true).
    { apply existsb_exists. exists (to_csvtx t). split; [apply in_map; exact Ht|exact E]. }
    congruence. }
  destruct (af_tests tbl t (proj1 (Forall_forall _ _) HV t Ht)) as [_ [E _]]. rewrite E in Hn.
  apply negb_false_iff in Hn. exact Hn.
Qed.

(* ---------------------------------------------------------------- C11: the round trip on cells *)
Lemma forallb_Forall {T} (f : T -> bool) l : forallb f l = true <-> Forall (fun x => f x = true) l.
Proof. rewrite forallb_forall, Forall_forall. tauto. Qed.

Lemma tbl_find_snoc id t d : tbl_find id t = None -> a_id d = id -> tbl_find id (t ++ [d]) = Some d.
Proof.
  intros Hn Hd. induction t as [|b r IH]; cbn [app tbl_find] in *.
  - rewrite Hd, beqb_refl. reflexivity.
  - destruct (beqb (a_id b) id); [discriminate|]. apply IH. exact Hn.
Qed.

Lemma written_table_facts tbl txs :
  Forall (fun t => valid_tx tbl t = true) txs ->
  exists dflt tblw hdr,
    write_table tbl txs = ((map col_name hdr, map (fun v => map (cell v) hdr) (map to_csvtx txs)), tblw)
    /\ hdr = table_header dflt (map to_csvtx txs)
    /\ fst (af_default tbl) = dflt /\ fst (af_default tblw) = dflt
    /\ Forall (fun t => valid_tx tblw t = true) txs.
Proof.
  intros HV. unfold write_table, csv_table. destruct (af_default tbl) as [dflt tbl1] eqn:Ed.
  exists dflt, (if existsb (fun v => is_some (v_af v)) (map to_csvtx txs) then tbl1 else tbl),
         (table_header dflt (map to_csvtx txs)).
  repeat split; auto.
  - destruct (existsb _ _); [|rewrite Ed; reflexivity].
    unfold af_default in *. unfold intern in *. rewrite default_id_data in *.
    destruct (tbl_find s_default_id tbl) as [b|] eqn:E; inversion Ed; subst.
    + rewrite E. reflexivity.
    + rewrite (tbl_find_snoc _ _ _ E default_id_data). reflexivity.
  - destruct (existsb _ _); [|exact HV]. apply Forall_forall. intros t Ht.
    apply (valid_tx_grows tbl tbl1); [apply (intern_grows tbl [] dflt tbl1); exact Ed|].
    apply (proj1 (Forall_forall _ _) HV). exact Ht.
Qed.

Lemma read_written_rows tblw dflt txs :
  Forall (fun t => valid_tx tblw t = true) txs ->
  let vs := map to_csvtx txs in
  let hdr := table_header dflt vs in
  parse_table tblw (map col_name hdr) (map (fun v => map (cell v) hdr) vs) 0
  = Ok (reread_all (inhdr hdr KAf) vs 0, tblw).
Proof.
  intros HV vs hdr. destruct (header_props dflt vs) as [Hnd [Hleg [Hreq _]]]. fold hdr in Hnd, Hleg, Hreq.
  unfold parse_table. rewrite header_cols_names, !has_col_map.
  assert (El : inhdr hdr KLegacy = false).
  { destruct (inhdr hdr KLegacy) eqn:E; [|reflexivity]. apply inhdr_In in E. contradiction. }
  rewrite El, andb_false_r.
  apply parse_rows_written; auto. apply rows_ok. exact HV.
Qed.

Lemma hasaf_in_use dflt vs : inhdr (table_header dflt vs) KAf = col_in_use dflt vs KAf.
Proof.
  destruct (header_props dflt vs) as [_ [_ [_ [Hin Huse]]]].
  destruct (col_in_use dflt vs KAf) eqn:E.
  - apply Huse; [cbn; auto 20|exact E].
  - destruct (inhdr _ KAf) eqn:E'; [|reflexivity]. rewrite (Hin KAf E' eq_refl) in E. discriminate.
Qed.

(* reading the written table: the result, with everything known about it *)
Lemma read_back tbl txs :
  Forall (fun t => valid_tx tbl t = true) txs ->
  exists dflt tblw txs' tbl2,
    write_table tbl txs
    = ((map col_name (table_header dflt (map to_csvtx txs)),
        map (fun v => map (cell v) (table_header dflt (map to_csvtx txs))) (map to_csvtx txs)), tblw)
    /\ fst (af_default tbl) = dflt /\ fst (af_default tblw) = dflt
    /\ Forall (fun t => valid_tx tblw t = true) txs
    /\ read_table tblw (map col_name (table_header dflt (map to_csvtx txs)))
                  (map (fun v => map (cell v) (table_header dflt (map to_csvtx txs))) (map to_csvtx txs))
       = Ok (txs', tbl2)
    /\ backs (col_in_use dflt (map to_csvtx txs) KAf) txs txs' 0 /\ grows tblw tbl2
    /\ (col_in_use dflt (map to_csvtx txs) KAf = false -> no_named_affiliate txs = true).
Proof.
  intros HV.
  destruct (written_table_facts tbl txs HV) as [dflt [tblw [hdr [Ew [Eh [Ed [Edw HVw]]]]]]]. subst hdr.
  assert (Hun : col_in_use dflt (map to_csvtx txs) KAf = false -> no_named_affiliate txs = true).
  { intros E. apply (no_column_unnamed tbl txs HV). rewrite Ed. exact E. }
  assert (Hdef : col_in_use dflt (map to_csvtx txs) KAf = false -> Forall (fun t => unnamed_b t = true) txs).
  { intros E. specialize (Hun E). unfold no_named_affiliate in Hun. apply forallb_Forall in Hun. exact Hun. }
  destruct (try_from_all (col_in_use dflt (map to_csvtx txs) KAf) txs tblw 0 HVw Hdef) as [txs' [tbl2 [E [B G]]]].
  exists dflt, tblw, txs', tbl2. repeat split; auto.
  unfold read_table. rewrite (read_written_rows tblw dflt txs HVw). cbn [bind].
  rewrite hasaf_in_use. exact E.
Qed.

Theorem table_roundtrip tbl txs :
  forallb (valid_tx tbl) txs = true ->
  exists txs' tbl2,
    read_table (snd (write_table tbl txs)) (fst (fst (write_table tbl txs))) (snd (fst (write_table tbl txs)))
    = Ok (txs', tbl2)
    /\ forall2b (tx_same (no_named_affiliate txs)) txs txs' = true /\ ri_from 0 txs' = true.
Proof.
  intros HV. apply forallb_Forall in HV.
  destruct (read_back tbl txs HV) as [dflt [tblw [txs' [tbl2 [Ew [Ed [Edw [HVw [Er [B [G Hun]]]]]]]]]]].
  rewrite Ew. cbn [fst snd]. exists txs', tbl2. split; [exact Er|].
  apply (backs_same tblw _ (no_named_affiliate txs) txs txs' 0 HVw B). exact Hun.
Qed.

(* ---------------------------------------------------------------- the second generation *)
Definition csv_like (v v' : csvtx) : Prop :=
  (forall k, k <> KAf -> cell v' k = cell v k)
  /\ is_some (v_fx v') = is_some (v_fx v) /\ is_some (v_ccur v') = is_some (v_ccur v)
  /\ is_some (v_cfx v') = is_some (v_cfx v) /\ is_some (v_sfl v') = is_some (v_sfl v)
  /\ is_some (v_ratio v') = is_some (v_ratio v).

Lemma like_in_use dflt vs vs' k :
  k <> KAf -> Forall2 csv_like vs vs' -> col_in_use dflt vs' k = col_in_use dflt vs k.
Proof.
  intros Hk. induction 1 as [|v v' vs vs' [_ [H1 [H2 [H3 [H4 H5]]]]] _ IH]; [reflexivity|].
  destruct k; cbn [col_in_use existsb] in *; rewrite ?IH, ?H1, ?H2, ?H3, ?H4, ?H5; try reflexivity.
  contradiction.
Qed.

Lemma rp_car_cur c : valid_car c = true -> c_cur (rp_car c) = c_cur c.
Proof.
  intros _. unfold rp_car. destruct (car_is_default c) eqn:E; [|reflexivity].
  unfold car_is_default, cur_is_default in E. apply beqb_eq in E. rewrite E. reflexivity.
Qed.
Lemma rp_car_default c : car_is_default (rp_car c) = car_is_default c.
Proof. unfold rp_car. destruct (car_is_default c) eqn:E; [reflexivity|exact E]. Qed.
Lemma rp_car_rate c : rate_opt (rp_car c) = option_map (rp_dec 0) (rate_opt c).
Proof.
  unfold rate_opt. rewrite rp_car_default. unfold rp_car. destruct (car_is_default c); reflexivity.
Qed.
Lemma tsmp_rp k d : valid_dec d = true -> (k <= 28)%nat -> tsmp k (rp_dec k d) = tsmp k d.
Proof. intros Hv Hk. apply rp_dec_spec; assumption. Qed.

Lemma like_retx tbl t af ri :
  valid_tx tbl t = true -> csv_like (to_csvtx t) (to_csvtx (retx t af ri)).
Proof.
  intros Hv. unfold valid_tx in Hv. rewrite !andb_true_iff in Hv. destruct Hv as [[[[Hs Htd] Hsd] Ha] Haf].
  unfold csv_like, retx, to_csvtx. cbn [x_sec x_td x_sd x_act x_memo x_af x_ri].
  destruct (x_act t) as [sh aps com cr ccr|sh aps com cr ccr sfl|aps cr|sh aps|r];
    cbn [valid_act] in Ha; rewrite ?andb_true_iff in Ha; cbn [rp_act].
  - destruct Ha as [[[[[[[V1 P1] V2] P2] V3] P3] Vc] Vcc].
    assert (Ec : option_map c_cur (option_map rp_car ccr) = option_map c_cur ccr).
    { destruct ccr as [c|]; [|reflexivity]. cbn. rewrite rp_car_cur by exact Vcc. reflexivity. }
    assert (Er : match option_map rp_car ccr with Some c => rate_opt c | None => None end
                 = option_map (rp_dec 0) (match ccr with Some c => rate_opt c | None => None end)).
    { destruct ccr as [c|]; [|reflexivity]. cbn. apply rp_car_rate. }
    repeat split; cbn [v_fx v_ccur v_cfx v_sfl v_ratio v_af];
      rewrite ?Ec, ?Er, ?rp_car_rate; try reflexivity.
    + intros k Hk. destruct k; try (exfalso; apply Hk; reflexivity); cbn [cell oshow v_sec v_td v_sd v_act v_sh v_aps v_com v_cur v_fx v_ccur v_cfx v_sfl v_ratio v_af v_memo];
        rewrite ?Ec, ?Er, ?rp_car_rate, ?rp_car_cur by assumption; try reflexivity; try (rewrite trim_idem; reflexivity);
        try (rewrite tsmp_rp by (assumption || lia); reflexivity).
      * destruct (rate_opt cr) as [x|] eqn:E; [|reflexivity]. cbn [option_map oshow].
        apply tsmp_rp; [|lia]. apply (rate_opt_valid cr Vc x E).
      * destruct (match ccr with Some c => rate_opt c | None => None end) as [x|] eqn:E; [|reflexivity].
        cbn [option_map oshow]. apply tsmp_rp; [|lia]. destruct ccr as [c|]; [|discriminate].
        apply (rate_opt_valid c Vcc x E).
    + destruct (rate_opt cr); reflexivity.
    + destruct (match ccr with Some c => rate_opt c | None => None end); reflexivity.
  - destruct Ha as [[[[[[[[V1 P1] V2] P2] V3] P3] Vc] Vcc] Vs].
    assert (Ec : option_map c_cur (option_map rp_car ccr) = option_map c_cur ccr).
    { destruct ccr as [c|]; [|reflexivity]. cbn. rewrite rp_car_cur by exact Vcc. reflexivity. }
    assert (Er : match option_map rp_car ccr with Some c => rate_opt c | None => None end
                 = option_map (rp_dec 0) (match ccr with Some c => rate_opt c | None => None end)).
    { destruct ccr as [c|]; [|reflexivity]. cbn. apply rp_car_rate. }
    repeat split; cbn [v_fx v_ccur v_cfx v_sfl v_ratio v_af];
      rewrite ?Ec, ?Er, ?rp_car_rate; try reflexivity.
    + intros k Hk. destruct k; try (exfalso; apply Hk; reflexivity); cbn [cell oshow v_sec v_td v_sd v_act v_sh v_aps v_com v_cur v_fx v_ccur v_cfx v_sfl v_ratio v_af v_memo];
        rewrite ?Ec, ?Er, ?rp_car_rate, ?rp_car_cur by assumption; try reflexivity; try (rewrite trim_idem; reflexivity);
        try (rewrite tsmp_rp by (assumption || lia); reflexivity).
      * destruct (rate_opt cr) as [x|] eqn:E; [|reflexivity]. cbn [option_map oshow].
        apply tsmp_rp; [|lia]. apply (rate_opt_valid cr Vc x E).
      * destruct (match ccr with Some c => rate_opt c | None => None end) as [x|] eqn:E; [|reflexivity].
        cbn [option_map oshow]. apply tsmp_rp; [|lia]. destruct ccr as [c|]; [|discriminate].
        apply (rate_opt_valid c Vcc x E).
      * destruct sfl as [v|]; [|reflexivity]. cbn [option_map oshow]. apply sfl_roundtrip. exact Vs.
    + destruct (rate_opt cr); reflexivity.
    + destruct (match ccr with Some c => rate_opt c | None => None end); reflexivity.
    + destruct sfl; reflexivity.
  - destruct Ha as [[V1 P1] Vc].
    repeat split; cbn [v_fx v_ccur v_cfx v_sfl v_ratio v_af]; rewrite ?rp_car_rate; try reflexivity.
    + intros k Hk. destruct k; try (exfalso; apply Hk; reflexivity); cbn [cell oshow v_sec v_td v_sd v_act v_sh v_aps v_com v_cur v_fx v_ccur v_cfx v_sfl v_ratio v_af v_memo];
        rewrite ?rp_car_rate, ?rp_car_cur by assumption; try reflexivity; try (rewrite trim_idem; reflexivity);
        try (rewrite tsmp_rp by (assumption || lia); reflexivity).
      destruct (rate_opt cr) as [x|] eqn:E; [|reflexivity]. cbn [option_map oshow].
      apply tsmp_rp; [|lia]. apply (rate_opt_valid cr Vc x E).
    + destruct (rate_opt cr); reflexivity.
  - destruct Ha as [[[V1 P1] V2] P2].
    repeat split; try reflexivity.
    intros k Hk. destruct k; try (exfalso; apply Hk; reflexivity); cbn [cell oshow v_sec v_td v_sd v_act v_sh v_aps v_com v_cur v_fx v_ccur v_cfx v_sfl v_ratio v_af v_memo];
      try reflexivity; try (rewrite trim_idem; reflexivity); rewrite tsmp_rp by (assumption || lia); reflexivity.
  - repeat split; try reflexivity.
    intros k Hk. destruct k; try (exfalso; apply Hk; reflexivity); cbn [cell oshow v_sec v_td v_sd v_act v_sh v_aps v_com v_cur v_fx v_ccur v_cfx v_sfl v_ratio v_af v_memo];
      try reflexivity; try (rewrite trim_idem; reflexivity). apply ratio_roundtrip. exact Ha.
Qed.


Lemma backs_like tbl (hasaf : bool) txs : forall txs' ri,
  Forall (fun t => valid_tx tbl t = true) txs -> backs hasaf txs txs' ri ->
  Forall2 csv_like (map to_csvtx txs) (map to_csvtx txs').
Proof.
  induction txs as [|t txs IH]; intros txs' ri HV HB; destruct txs' as [|t' txs']; cbn in HB; try contradiction.
  - constructor.
  - destruct HB as [[af [-> _]] B2]. cbn [map]. constructor.
    + apply (like_retx tbl). exact (Forall_inv HV).
    + apply (IH txs' (ri + 1)); [exact (Forall_inv_tail HV)|exact B2].
Qed.

(* with the column, every affiliate comes back as it was *)
Lemma backs_af_true txs : forall txs' ri,
  backs true txs txs' ri -> map x_af txs' = map x_af txs /\ map (fun t => is_xsplit (x_act t)) txs' = map (fun t => is_xsplit (x_act t)) txs.
Proof.
  induction txs as [|t txs IH]; intros txs' ri HB; destruct txs' as [|t' txs']; cbn in HB; try contradiction.
  - split; reflexivity.
  - destruct HB as [[af [-> Haf]] B2]. destruct (IH txs' (ri + 1) B2) as [E1 E2]. cbn [map]. rewrite E1, E2.
    destruct Haf as [[-> _]|[Hf _]]; [|discriminate]. cbn [retx x_af x_act].
    split; [reflexivity|]. f_equal. destruct (x_act t); reflexivity.
Qed.

Lemma is_xsplit_rp a : is_xsplit (rp_act a) = is_xsplit a.
Proof. destruct a; reflexivity. Qed.

(* without the column, no re-read row needs it *)
Lemma backs_af_false dflt txs : forall txs' ri,
  backs false txs txs' ri ->
  existsb (af_named dflt) (map to_csvtx txs) = false ->
  existsb (af_named dflt) (map to_csvtx txs') = false
  /\ existsb (af_default_split dflt) (map to_csvtx txs') = false.
Proof.
  induction txs as [|t txs IH]; intros txs' ri HB Hn; destruct txs' as [|t' txs']; cbn in HB; try contradiction.
  - split; reflexivity.
  - destruct HB as [[af [-> Haf]] B2]. cbn [map existsb] in Hn. apply orb_false_iff in Hn. destruct Hn as [Hn1 Hn2].
    destruct (IH txs' (ri + 1) B2 Hn2) as [E1 E2]. cbn [map existsb]. rewrite E1, E2, !orb_false_r.
    unfold af_named, af_default_split in *. rewrite v_af_some, v_split_some in *.
    cbn [retx x_af x_act]. rewrite is_xsplit_rp.
    destruct Haf as [[-> Hg]|[_ [Hs [_ Hglob]]]].
    + destruct (is_xsplit (x_act t)) eqn:Es.
      * rewrite (Hg eq_refl eq_refl). split; reflexivity.
      * cbn [andb negb] in *. rewrite Hn1. split; [reflexivity|apply andb_false_r].
    + rewrite Hs, Hglob. split; reflexivity.
Qed.

Lemma existsb_map_eq {A B} (f g : A -> bool) (h h' : B -> A) l l' :
  map (fun x => f (h x)) l = map (fun x => g (h' x)) l' -> existsb f (map h l) = existsb g (map h' l').
Proof.
  revert l'. induction l as [|x l IH]; intros l' E; destruct l' as [|y l']; try discriminate; [reflexivity|].
  cbn [map] in E. inversion E as [[E1 E2]]. cbn [map existsb]. rewrite E1, (IH l' E2). reflexivity.
Qed.

Lemma map_pair_eq {A B C D} (f : A -> B) (g : A -> C) (Q : B -> C -> D) : forall l l',
  map f l' = map f l -> map g l' = map g l ->
  map (fun x => Q (f x) (g x)) l' = map (fun x => Q (f x) (g x)) l.
Proof.
  induction l as [|x l IH]; intros l' E1 E2; destruct l' as [|y l']; try discriminate; [reflexivity|].
  cbn [map] in *. inversion E1 as [[Ef El]]. inversion E2 as [[Eg El2]]. rewrite Ef, Eg, (IH l' El El2). reflexivity.
Qed.

(* the affiliate column is decided the same way the second time *)
Lemma second_af_in_use tbl dflt txs txs' :
  Forall (fun t => valid_tx tbl t = true) txs ->
  backs (col_in_use dflt (map to_csvtx txs) KAf) txs txs' 0 ->
  col_in_use dflt (map to_csvtx txs') KAf = col_in_use dflt (map to_csvtx txs) KAf.
Proof.
  intros HV HB. destruct (col_in_use dflt (map to_csvtx txs) KAf) eqn:E.
  - destruct (backs_af_true txs txs' 0 HB) as [Ea Es].
    assert (Ev : forall (P : csvtx -> bool) (Q : affdata -> bool -> bool),
               (forall t, P (to_csvtx t) = Q (x_af t) (is_xsplit (x_act t))) ->
               existsb P (map to_csvtx txs') = existsb P (map to_csvtx txs)).
    { intros P Q HP. apply existsb_map_eq.
      rewrite (map_ext _ _ HP txs'), (map_ext _ _ HP txs).
      apply map_pair_eq; assumption. }
    cbn [col_in_use] in *. rewrite <- E.
    rewrite (Ev (af_named dflt) (fun a s => negb (s && aff_is_global a) && negb (affdata_eqb a dflt))),
            (Ev af_global_split (fun a s => s && aff_is_global a)),
            (Ev (af_default_split dflt) (fun a s => negb (s && aff_is_global a) && affdata_eqb a dflt && s)); try reflexivity;
      intros t; unfold af_named, af_global_split, af_default_split; rewrite v_af_some, v_split_some; reflexivity.
  - cbn [col_in_use] in *. apply orb_false_iff in E. destruct E as [E1 _].
    destruct (backs_af_false dflt txs txs' 0 HB E1) as [H1 H2]. rewrite H1, H2, andb_false_r. reflexivity.
Qed.

Lemma rows_like hdr vs vs' :
  Forall2 csv_like vs vs' -> (In KAf hdr -> map v_af vs' = map v_af vs) ->
  map (fun v => map (cell v) hdr) vs' = map (fun v => map (cell v) hdr) vs.
Proof.
  intros H. induction H as [|v v' vs vs' [Hc _] _ IH]; intros Ha; [reflexivity|].
  cbn [map]. rewrite IH.
  - f_equal. apply map_ext_in. intros k Hk. destruct (col_eqb_spec k KAf) as [->|Hne].
    + specialize (Ha Hk). cbn [map] in Ha. injection Ha as E _. cbn [cell]. rewrite E. reflexivity.
    + apply Hc. exact Hne.
  - intros Hk. specialize (Ha Hk). cbn [map] in Ha. injection Ha as _ E. exact E.
Qed.

(* Writing the re-read list again yields the same table, for EVERY valid list *)
Theorem table_idempotent tbl txs :
  forallb (valid_tx tbl) txs = true ->
  exists txs' tbl2,
    read_table (snd (write_table tbl txs)) (fst (fst (write_table tbl txs))) (snd (fst (write_table tbl txs)))
    = Ok (txs', tbl2)
    /\ fst (write_table tbl2 txs') = fst (write_table tbl txs).
Proof.
  intros HV. apply forallb_Forall in HV.
  destruct (read_back tbl txs HV) as [dflt [tblw [txs' [tbl2 [Ew [Ed [Edw [HVw [Er [B [G Hun]]]]]]]]]]].
  rewrite Ew. cbn [fst snd]. exists txs', tbl2. split; [exact Er|].
  (* the default affiliate is the same in the grown table *)
  assert (Ed2 : txs <> [] -> fst (af_default tbl2) = dflt).
  { intros Hne. unfold af_default, intern in *. rewrite default_id_data in *.
    destruct (tbl_find s_default_id tblw) as [b|] eqn:Ef.
    - rewrite (G _ _ Ef). exact Edw.
    - (* tblw interns the default affiliate as soon as a row is written *)
      exfalso. destruct txs as [|t0 txs0]; [contradiction|].
      pose proof (Forall_inv HVw) as Hv0. unfold valid_tx in Hv0. rewrite !andb_true_iff in Hv0.
      destruct Hv0 as [_ Hva]. clear -Ew Ef Ed.
      unfold write_table, csv_table in Ew. destruct (af_default tbl) as [d0 t1] eqn:E0.
      cbn [map existsb] in Ew. rewrite v_af_some in Ew. cbn [is_some orb] in Ew. inversion Ew; subst tblw.
      unfold af_default, intern in E0. rewrite default_id_data in E0.
      destruct (tbl_find s_default_id tbl) as [b|] eqn:Eb; inversion E0; subst.
      + rewrite Eb in Ef. discriminate.
      + rewrite (tbl_find_snoc _ _ _ Eb default_id_data) in Ef. discriminate. }
  destruct txs as [|t0 txs0].
  - destruct txs' as [|? ?]; [|cbn in B; contradiction].
    unfold write_table, csv_table. destruct (af_default tbl2) as [d2 t2]. reflexivity.
  - specialize (Ed2 ltac:(discriminate)). set (txs := t0 :: txs0) in *.
    unfold write_table, csv_table. destruct (af_default tbl2) as [d2 t2] eqn:E2. cbn [fst] in Ed2. subst d2.
    cbn [fst].
    pose proof (backs_like tblw _ txs txs' 0 HVw B) as HL.
    assert (Hhdr : table_header dflt (map to_csvtx txs') = table_header dflt (map to_csvtx txs)).
    { unfold table_header. apply filter_ext. intros c. destruct (col_eqb_spec c KAf) as [->|Hne].
      - rewrite (second_af_in_use tblw dflt txs txs' HVw B). reflexivity.
      - rewrite (like_in_use dflt _ _ c Hne HL). reflexivity. }
    rewrite Hhdr. f_equal. apply rows_like; [exact HL|].
    intros Hin. apply inhdr_In in Hin. rewrite hasaf_in_use in Hin. rewrite Hin in B.
    destruct (backs_af_true txs txs' 0 B) as [Ea _].
    rewrite !map_map. 
    transitivity (map (fun t => Some (x_af t)) txs'); [apply map_ext; intros; apply v_af_some|].
    transitivity (map (fun t => Some (x_af t)) txs); [|apply map_ext; intros; symmetry; apply v_af_some].
    rewrite <- (map_map x_af Some txs'), <- (map_map x_af Some txs), Ea. reflexivity.
Qed.

(* ---------------------------------------------------------------- C11 on bytes (csv layer as hypothesis) *)
Section Bytes.
  Variable cw : list (list bytes) -> bytes.
  Variable cr : bytes -> res (list (list bytes)).
  Hypothesis layer : csv_layer_ok cw cr.

  Lemma read_write_bytes tbl txs :
    Forall (fun t => valid_tx tbl t = true) txs ->
    read cr (snd (write cw tbl txs)) (fst (write cw tbl txs))
    = read_table (snd (write_table tbl txs)) (fst (fst (write_table tbl txs))) (snd (fst (write_table tbl txs))).
  Proof.
    intros HV. destruct (written_table_facts tbl txs HV) as [dflt [tblw [hdr [Ew [Eh _]]]]].
    unfold write. rewrite Ew. cbn [fst snd]. unfold read. rewrite layer; [reflexivity| |].
    - destruct (header_props dflt (map to_csvtx txs)) as [_ [_ [Hreq _]]]. rewrite <- Eh in Hreq.
      assert (Hs : In KSec hdr) by (apply inhdr_In, Hreq; [cbn; auto|reflexivity]).
      destruct hdr; [contradiction|discriminate].
    - apply Forall_forall. intros r Hr. apply in_map_iff in Hr. destruct Hr as [v [<- _]].
      rewrite !map_length. reflexivity.
  Qed.

  Theorem roundtrip_bytes tbl txs :
    forallb (valid_tx tbl) txs = true ->
    exists txs' tbl2,
      read cr (snd (write cw tbl txs)) (fst (write cw tbl txs)) = Ok (txs', tbl2)
      /\ forall2b (tx_same (no_named_affiliate txs)) txs txs' = true /\ ri_from 0 txs' = true.
  Proof.
    intros HV. rewrite read_write_bytes by (apply forallb_Forall; exact HV). apply table_roundtrip. exact HV.
  Qed.

  Theorem idempotent_bytes tbl txs :
    forallb (valid_tx tbl) txs = true ->
    exists txs' tbl2,
      read cr (snd (write cw tbl txs)) (fst (write cw tbl txs)) = Ok (txs', tbl2)
      /\ fst (write cw tbl2 txs') = fst (write cw tbl txs).
  Proof.
    intros HV. rewrite read_write_bytes by (apply forallb_Forall; exact HV).
    destruct (table_idempotent tbl txs HV) as [txs' [tbl2 [E W]]].
    exists txs', tbl2. split; [exact E|]. unfold write.
    destruct (write_table tbl2 txs') as [[h2 r2] t2]. destruct (write_table tbl txs) as [[h1 r1] t1].
    cbn [fst] in *. inversion W; subst. reflexivity.
  Qed.

  (* the writer is injective on well-formed tables *)
  Lemma write_injective h1 r1 h2 r2 :
    h1 <> [] -> Forall (fun r => length r = length h1) r1 ->
    h2 <> [] -> Forall (fun r => length r = length h2) r2 ->
    cw (h1 :: r1) = cw (h2 :: r2) -> h1 :: r1 = h2 :: r2.
  Proof.
    intros A1 B1 A2 B2 E. pose proof (layer h1 r1 A1 B1) as L1. pose proof (layer h2 r2 A2 B2) as L2.
    rewrite E in L1. rewrite L1 in L2. inversion L2. reflexivity.
  Qed.
End Bytes.


(* ---------------------------------------------------------------- the two former classes *)
(* Before the fixes 84ca472 / e44bc72 these two lists were re-written to
   different cells (a memo with surrounding white space; a split of the
   default affiliate in a list naming no other affiliate).  They are instances
   of table_idempotent now. *)
Definition wit_tbl : aftable := [from_strep_data []].
Definition wit_buy (memo : bytes) : ctx :=
  {| x_sec := [70; 79; 79]; x_td := {| dt_y := 2021; dt_m := 3; dt_d := 4 |};
     x_sd := {| dt_y := 2021; dt_m := 3; dt_d := 6 |};
     x_act := XBuy (mk_dec false 10 0) (mk_dec false 150 2) (mk_dec false 0 2) car_default None;
     x_memo := memo; x_af := from_strep_data []; x_ri := 0 |}.
Definition wit_split : ctx :=
  {| x_sec := [70; 79; 79]; x_td := {| dt_y := 2021; dt_m := 5; dt_d := 1 |};
     x_sd := {| dt_y := 2021; dt_m := 5; dt_d := 1 |};
     x_act := XSplit {| r_post := mk_dec false 2 0; r_pre := mk_dec false 1 0; r_rio := false |};
     x_memo := []; x_af := from_strep_data []; x_ri := 7 |}.

Definition second_same (tbl : aftable) (txs : list ctx) : Prop :=
  match read_table (snd (write_table tbl txs)) (fst (fst (write_table tbl txs))) (snd (fst (write_table tbl txs))) with
  | Ok (txs', tbl2) => fst (write_table tbl2 txs') = fst (write_table tbl txs)
  | _ => False
  end.

Lemma former_witnesses_stable :
  forallb (valid_tx wit_tbl) [wit_buy [32; 120]] = true /\ second_same wit_tbl [wit_buy [32; 120]]
  /\ forallb (valid_tx wit_tbl) [wit_split] = true /\ second_same wit_tbl [wit_split]
  /\ map (fun t => aff_is_global (x_af t))
         (match read_table (snd (write_table wit_tbl [wit_split])) (fst (fst (write_table wit_tbl [wit_split])))
                           (snd (fst (write_table wit_tbl [wit_split]))) with
          | Ok (txs', _) => txs' | _ => [] end) = [true].
Proof. unfold second_same. vm_compute. repeat split. Qed.

(* ---------------------------------------------------------------- the csv-layer hypothesis is satisfiable *)
(* a length-prefixed encoding of tables (NOT the csv crate: only a witness
   that [csv_layer_ok] has a model, for the non-vacuity examples) *)
Definition enc_bytes (b : bytes) : bytes := N.of_nat (length b) :: b.
Definition enc_rec (r : list bytes) : bytes := N.of_nat (length r) :: flat_map enc_bytes r.
Definition toy_cw (recs : list (list bytes)) : bytes := N.of_nat (length recs) :: flat_map enc_rec recs.

Definition dec_bytes (l : bytes) : option (bytes * bytes) :=
  match l with
  | n :: r => if (N.to_nat n <=? length r)%nat then Some (firstn (N.to_nat n) r, skipn (N.to_nat n) r) else None
  | [] => None
  end.
Fixpoint dec_many {T} (dec : bytes -> option (T * bytes)) (k : nat) (l : bytes) : option (list T * bytes) :=
  match k with
  | O => Some ([], l)
  | S k' => match dec l with
            | Some (x, r) => match dec_many dec k' r with Some (xs, r') => Some (x :: xs, r') | None => None end
            | None => None
            end
  end.
Definition dec_rec (l : bytes) : option (list bytes * bytes) :=
  match l with n :: r => dec_many dec_bytes (N.to_nat n) r | [] => None end.
Definition toy_cr (l : bytes) : res (list (list bytes)) :=
  match l with
  | n :: r => match dec_many dec_rec (N.to_nat n) r with Some (recs, []) => Ok recs | _ => Rej (RejParse 30) end
  | [] => Rej (RejParse 30)
  end.

Lemma dec_bytes_enc b rest : dec_bytes (enc_bytes b ++ rest) = Some (b, rest).
Proof.
  unfold dec_bytes, enc_bytes. cbn [app]. rewrite Nat2N.id, app_length.
  destruct (Nat.leb_spec (length b) (length b + length rest)); [|lia].
  rewrite firstn_app, Nat.sub_diag, firstn_all, skipn_app, Nat.sub_diag, skipn_all. cbn. rewrite app_nil_r. reflexivity.
Qed.
Lemma dec_many_enc {T} (dec : bytes -> option (T * bytes)) (enc : T -> bytes) :
  (forall x rest, dec (enc x ++ rest) = Some (x, rest)) ->
  forall xs rest, dec_many dec (length xs) (flat_map enc xs ++ rest) = Some (xs, rest).
Proof.
  intros H xs. induction xs as [|x xs IH]; intros rest; [reflexivity|].
  cbn [length flat_map dec_many]. rewrite <- app_assoc, H, IH. reflexivity.
Qed.
Lemma dec_rec_enc r rest : dec_rec (enc_rec r ++ rest) = Some (r, rest).
Proof.
  unfold dec_rec, enc_rec. cbn [app]. rewrite Nat2N.id. apply dec_many_enc. apply dec_bytes_enc.
Qed.
Lemma toy_layer_ok : csv_layer_ok toy_cw toy_cr.
Proof.
  intros h rows _ _. unfold toy_cr, toy_cw. rewrite Nat2N.id.
  rewrite <- (app_nil_r (flat_map enc_rec (h :: rows))).
  rewrite (dec_many_enc dec_rec enc_rec dec_rec_enc). reflexivity.
Qed.
