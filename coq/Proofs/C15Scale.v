(* C15: stock splits are value-neutral - at the level of the declarative
   rules (L0): the average-cost rule and the superficial-loss rule quantities
   commute with restating share quantities (x f) and per-share amounts (/ f),
   also across an inserted split. *)
From Coq Require Import List NArith ZArith QArith Qcanon Bool Lia Permutation.
From ACB Require Import Base.QcExtra Model.Tx Spec.AvgCost Spec.SflRule Proofs.Tactics Proofs.C02Scan.
Import ListNotations.
Local Open Scope Qc_scope.

Definition scale_action (f : Qc) (a : action) : action :=
  match a with
  | Buy n p c r cr => Buy (n * f) (p / f) c r cr
  | Sell n p c r cr s => Sell (n * f) (p / f) c r cr s
  | Roc amt r => Roc (amt / f) r
  | Sfla n amt => Sfla n amt
  | Split post pre io => Split post pre io
  end.
Definition scale_tx (f : Qc) (t : tx) : tx :=
  {| t_sec := t_sec t; t_td := t_td t; t_sd := t_sd t; t_act := scale_action f (t_act t);
     t_af := t_af t; t_glob := t_glob t; t_ri := t_ri t |}.

(* ---- the average-cost rule ---- *)
Theorem avg_cost_rule_scale f sh acb a denied :
  f <> 0 -> sh <> 0 \/ is_sell a = false ->
  avg_cost_rule (sh * f, acb) (scale_action f a) denied
  = let '((sh', acb'), g) := avg_cost_rule (sh, acb) a denied in ((sh' * f, acb'), g).
Proof.
  intros Hf Hs.
  assert (Hp : forall a b c a' b' c' : Qc, True) by (intros; exact I).
  destruct a as [n p c r cr | n p c r cr s | amt r | n amt | post pre io];
    cbn [avg_cost_rule scale_action]; destruct acb as [cb|]; cbn [option_map].
  - assert (E1 : sh * f + n * f = (sh + n) * f) by ring.
    assert (E2 : n * f * (p / f) * r + c * cr = n * p * r + c * cr) by (field; exact Hf).
    rewrite E1, E2. reflexivity.
  - assert (E1 : sh * f + n * f = (sh + n) * f) by ring. rewrite E1. reflexivity.
  - destruct Hs as [Hs|Hs]; [|discriminate Hs].
    assert (E1 : sh * f - n * f = (sh - n) * f) by ring.
    assert (E2 : cb * (n * f) / (sh * f) = cb * n / sh) by (field; split; assumption).
    assert (E3 : n * f * (p / f) * r = n * p * r) by (field; exact Hf).
    rewrite E1, E2, E3. reflexivity.
  - assert (E1 : sh * f - n * f = (sh - n) * f) by ring. rewrite E1. reflexivity.
  - assert (E1 : amt / f * (sh * f) * r = amt * sh * r) by (field; exact Hf). rewrite E1. reflexivity.
  - reflexivity.
  - reflexivity.
  - reflexivity.
  - assert (E1 : sh * f * (post / pre) = sh * (post / pre) * f) by ring. rewrite E1. reflexivity.
  - assert (E1 : sh * f * (post / pre) = sh * (post / pre) * f) by ring. rewrite E1. reflexivity.
Qed.

(* ---- the superficial-loss rule quantities ---- *)
Lemma split_factor_scale f t : split_factor_of (scale_tx f t) = split_factor_of t.
Proof. unfold split_factor_of, scale_tx. cbn. destruct (t_act t); reflexivity. Qed.
Lemma split_of_scale f id t : split_of id (scale_tx f t) = split_of id t.
Proof. unfold split_of, scale_tx. cbn. destruct (t_act t); reflexivity. Qed.
Lemma buy_shares_scale f t : buy_shares (scale_tx f t) = buy_shares t * f.
Proof. unfold buy_shares, scale_tx. cbn. destruct (t_act t); cbn; ring. Qed.
Lemma sell_shares_scale f t : sell_shares (scale_tx f t) = sell_shares t * f.
Proof. unfold sell_shares, scale_tx. cbn. destruct (t_act t); cbn; ring. Qed.

Lemma fadj_scale f id l : fadj id (map (scale_tx f) l) = fadj id l.
Proof. induction l as [|x l IH]; cbn [map fadj]; [reflexivity|]. rewrite IH, split_of_scale, split_factor_scale. reflexivity. Qed.
Lemma badj_scale f id l : badj id (map (scale_tx f) l) = badj id l.
Proof. induction l as [|x l IH]; cbn [map badj]; [reflexivity|]. rewrite IH, split_of_scale, split_factor_scale. reflexivity. Qed.

Lemma fadj_app id l1 l2 : fadj id (l1 ++ l2) = fadj id l1 * fadj id l2.
Proof. induction l1 as [|x l1 IH]; cbn [app fadj]; [ring | rewrite IH; ring]. Qed.
Lemma badj_app id l1 l2 : badj id (l1 ++ l2) = badj id l1 * badj id l2.
Proof. induction l1 as [|x l1 IH]; cbn [app badj]; [ring | rewrite IH; ring]. Qed.

(* restating every row of a window scales the sums *)
Lemma acq_after_scale f seen w :
  acq_after (map (scale_tx f) seen) (map (scale_tx f) w) = acq_after seen w * f.
Proof.
  revert seen. induction w as [|x w IH]; intros seen; cbn [map acq_after]; [ring|].
  replace (map (scale_tx f) seen ++ [scale_tx f x]) with (map (scale_tx f) (seen ++ [x])) by (rewrite map_app; reflexivity).
  rewrite IH, buy_shares_scale, fadj_scale. cbn [scale_tx t_af]. ring.
Qed.
Lemma sold_after_scale f seen w :
  sold_after (map (scale_tx f) seen) (map (scale_tx f) w) = sold_after seen w * f.
Proof.
  revert seen. induction w as [|x w IH]; intros seen; cbn [map sold_after]; [ring|].
  replace (map (scale_tx f) seen ++ [scale_tx f x]) with (map (scale_tx f) (seen ++ [x])) by (rewrite map_app; reflexivity).
  rewrite IH, sell_shares_scale, fadj_scale. cbn [scale_tx t_af]. ring.
Qed.
Lemma acq_before_scale f seen w :
  acq_before (map (scale_tx f) seen) (map (scale_tx f) w) = acq_before seen w * f.
Proof.
  revert seen. induction w as [|x w IH]; intros seen; cbn [map acq_before]; [ring|].
  replace (map (scale_tx f) seen ++ [scale_tx f x]) with (map (scale_tx f) (seen ++ [x])) by (rewrite map_app; reflexivity).
  rewrite IH, buy_shares_scale, badj_scale. cbn [scale_tx t_af]. ring.
Qed.

Lemma acq_before_app seen w1 w2 :
  acq_before seen (w1 ++ w2) = acq_before seen w1 + acq_before (seen ++ w1) w2.
Proof.
  revert seen. induction w1 as [|x w1 IH]; intros seen; cbn [app acq_before].
  - rewrite app_nil_r. ring.
  - rewrite IH, <- app_assoc. cbn [app]. ring.
Qed.
Lemma acq_after_app seen w1 w2 :
  acq_after seen (w1 ++ w2) = acq_after seen w1 + acq_after (seen ++ w1) w2.
Proof.
  revert seen. induction w1 as [|x w1 IH]; intros seen; cbn [app acq_after].
  - rewrite app_nil_r. ring.
  - rewrite IH, <- app_assoc. cbn [app]. ring.
Qed.
Lemma sold_after_app seen w1 w2 :
  sold_after seen (w1 ++ w2) = sold_after seen w1 + sold_after (seen ++ w1) w2.
Proof.
  revert seen. induction w1 as [|x w1 IH]; intros seen; cbn [app sold_after].
  - rewrite app_nil_r. ring.
  - rewrite IH, <- app_assoc. cbn [app]. ring.
Qed.

(* ---- an inserted a-for-b split, one row per affiliate of [ids] ---- *)
(* [splits]: split rows, all with factor f, exactly one for each id of ids *)
Definition split_rows_for (f : Qc) (ids : list N) (splits : list tx) : Prop :=
  Forall (fun s => is_split (t_act s) = true /\ split_factor_of s = f) splits /\
  Permutation.Permutation (map (fun s => af_id (t_af s)) splits) ids /\ NoDup ids.

Lemma badj_splits f ids splits id :
  split_rows_for f ids splits -> In id ids -> badj id splits = f.
Proof.
  intros (HF & Hp & Hnd) Hin.
  assert (Hnd' : NoDup (map (fun s => af_id (t_af s)) splits))
    by (eapply Permutation.Permutation_NoDup; [apply Permutation.Permutation_sym; exact Hp | exact Hnd]).
  assert (Hin' : In id (map (fun s => af_id (t_af s)) splits))
    by (eapply Permutation.Permutation_in; [apply Permutation.Permutation_sym; exact Hp | exact Hin]).
  clear Hp Hnd Hin. induction splits as [|s splits IH]; [contradiction|].
  apply Forall_cons_iff in HF as [[Hs Hf] HF]. cbn [map] in Hnd', Hin'.
  apply NoDup_cons_iff in Hnd' as [Hni Hnd']. cbn [badj]. unfold split_of. rewrite Hs. cbn [andb].
  destruct (N.eqb (af_id (t_af s)) id) eqn:E.
  - apply N.eqb_eq in E.
    assert (Hrest : badj id splits = 1).
    { clear IH Hin'. subst id. induction splits as [|s' splits IH']; [reflexivity|].
      apply Forall_cons_iff in HF as [[Hs' _] HF]. cbn [map] in Hni, Hnd'.
      apply NoDup_cons_iff in Hnd' as [_ Hnd'']. cbn [badj]. unfold split_of. rewrite Hs'. cbn [andb].
      destruct (N.eqb (af_id (t_af s')) (af_id (t_af s))) eqn:E'.
      - apply N.eqb_eq in E'. exfalso. apply Hni. left. exact E'.
      - rewrite IH'; [ring | exact HF | intros H; apply Hni; right; exact H | exact Hnd'']. }
    rewrite Hrest, Hf. ring.
  - destruct Hin' as [Hx|Hin']; [apply N.eqb_neq in E; contradiction|].
    rewrite (IH HF Hnd' Hin'). ring.
Qed.

Lemma fadj_splits f ids splits id :
  split_rows_for f ids splits -> In id ids -> f <> 0 -> fadj id splits = / f.
Proof.
  intros (HF & Hp & Hnd) Hin Hf0.
  assert (Hnd' : NoDup (map (fun s => af_id (t_af s)) splits))
    by (eapply Permutation.Permutation_NoDup; [apply Permutation.Permutation_sym; exact Hp | exact Hnd]).
  assert (Hin' : In id (map (fun s => af_id (t_af s)) splits))
    by (eapply Permutation.Permutation_in; [apply Permutation.Permutation_sym; exact Hp | exact Hin]).
  clear Hp Hnd Hin. induction splits as [|s splits IH]; [contradiction|].
  apply Forall_cons_iff in HF as [[Hs Hf] HF]. cbn [map] in Hnd', Hin'.
  apply NoDup_cons_iff in Hnd' as [Hni Hnd']. cbn [fadj]. unfold split_of. rewrite Hs. cbn [andb].
  destruct (N.eqb (af_id (t_af s)) id) eqn:E.
  - apply N.eqb_eq in E.
    assert (Hrest : fadj id splits = 1).
    { clear IH Hin'. subst id. induction splits as [|s' splits IH']; [reflexivity|].
      apply Forall_cons_iff in HF as [[Hs' _] HF]. cbn [map] in Hni, Hnd'.
      apply NoDup_cons_iff in Hnd' as [_ Hnd'']. cbn [fadj]. unfold split_of. rewrite Hs'. cbn [andb].
      destruct (N.eqb (af_id (t_af s')) (af_id (t_af s))) eqn:E'.
      - apply N.eqb_eq in E'. exfalso. apply Hni. left. exact E'.
      - rewrite IH'; [ring | exact HF | intros H; apply Hni; right; exact H | exact Hnd'']. }
    rewrite Hrest, Hf. ring.
  - destruct Hin' as [Hx|Hin']; [apply N.eqb_neq in E; contradiction|].
    rewrite (IH HF Hnd' Hin'). ring.
Qed.

Lemma splits_no_shares f ids splits seen :
  split_rows_for f ids splits ->
  acq_before seen splits = 0 /\ acq_after seen splits = 0 /\ sold_after seen splits = 0.
Proof.
  intros (HF & _ & _). revert seen. induction splits as [|s splits IH]; intros seen; cbn; [repeat split; ring|].
  apply Forall_cons_iff in HF as [[Hs _] HF]. destruct (IH HF (seen ++ [s])) as (H1 & H2 & H3).
  rewrite H1, H2, H3. unfold buy_shares, sell_shares. destruct (t_act s); try discriminate Hs.
  repeat split; ring.
Qed.

(* acquisitions BEFORE a sale, when a split is inserted between older rows
   [pre] and newer rows [post] (restated): the adjusted sum is restated too *)
Theorem acq_before_inserted_split f ids splits post pre :
  split_rows_for f ids splits ->
  Forall (fun x => In (af_id (t_af x)) ids) pre ->
  acq_before [] (map (scale_tx f) post ++ splits ++ pre) = acq_before [] (post ++ pre) * f.
Proof.
  intros Hsp Hpre.
  rewrite !acq_before_app. cbn [app].
  change (@nil tx) with (map (scale_tx f) []) at 1. rewrite acq_before_scale.
  destruct (splits_no_shares f ids splits (map (scale_tx f) post) Hsp) as (H0 & _ & _). rewrite H0.
  assert (Hgen : forall seen1 seen2,
            (forall id, In id ids -> badj id seen1 = badj id seen2 * f) ->
            acq_before seen1 pre = acq_before seen2 pre * f).
  { induction pre as [|x pre IH]; intros seen1 seen2 Hb; cbn [acq_before]; [ring|].
    apply Forall_cons_iff in Hpre as [Hx Hpre].
    rewrite (IH Hpre (seen1 ++ [x]) (seen2 ++ [x])).
    - rewrite (Hb _ Hx). ring.
    - intros id Hid. rewrite !badj_snoc, (Hb _ Hid). ring. }
  rewrite (Hgen (map (scale_tx f) post ++ splits) post).
  - cbn [app]. ring.
  - intros id Hid. rewrite badj_app, badj_scale, (badj_splits f ids splits id Hsp Hid). ring.
Qed.

(* rows AFTER a sale, when a split is inserted later in its window: the
   restated later rows count exactly as before *)
Theorem after_inserted_split f ids splits pre post :
  split_rows_for f ids splits -> f <> 0 ->
  Forall (fun x => In (af_id (t_af x)) ids) post ->
  acq_after [] (pre ++ splits ++ map (scale_tx f) post) = acq_after [] (pre ++ post) /\
  sold_after [] (pre ++ splits ++ map (scale_tx f) post) = sold_after [] (pre ++ post).
Proof.
  intros Hsp Hf0 Hpost.
  rewrite !acq_after_app, !sold_after_app. cbn [app].
  destruct (splits_no_shares f ids splits pre Hsp) as (_ & H1 & H2). rewrite H1, H2.
  assert (Hgen : forall seen1 seen2,
            (forall id, In id ids -> fadj id seen1 = fadj id seen2 * / f) ->
            acq_after seen1 (map (scale_tx f) post) = acq_after seen2 post /\
            sold_after seen1 (map (scale_tx f) post) = sold_after seen2 post).
  { induction post as [|x post IH]; intros seen1 seen2 Hb; cbn [map acq_after sold_after]; [split; ring|].
    apply Forall_cons_iff in Hpost as [Hx Hpost].
    destruct (IH Hpost (seen1 ++ [scale_tx f x]) (seen2 ++ [x])) as [I1 I2].
    - intros id Hid. rewrite !fadj_snoc, (Hb _ Hid), split_of_scale, split_factor_scale. ring.
    - rewrite I1, I2, buy_shares_scale, sell_shares_scale. cbn [scale_tx t_af]. rewrite (Hb _ Hx).
      split; field; exact Hf0. }
  destruct (Hgen (pre ++ splits) pre) as [G1 G2].
  - intros id Hid. rewrite fadj_app, (fadj_splits f ids splits id Hsp Hid Hf0). ring.
  - rewrite G1, G2. split; ring.
Qed.

(* the ratio is unchanged when sold, acquired and held are restated *)
Theorem rule_ratio_scale f sold acq held :
  0 < f -> 0 < sold ->
  rule_ratio (sold * f) (acq * f) (held * f) = rule_ratio sold acq held.
Proof.
  intros Hf Hs. unfold rule_ratio.
  assert (Hm : forall a b, Qcmin (a * f) (b * f) = Qcmin a b * f).
  { intros a b. unfold Qcmin.
    destruct (Qcltb_spec (b * f) (a * f)) as [H|H]; destruct (Qcltb_spec b a) as [H'|H']; try reflexivity.
    - exfalso. apply H'. apply Qcmult_lt_0_le_reg_r with (z := f) in H || idtac.
      apply Qcnot_le_lt. intros Hle. apply (Qcle_not_lt _ _ (Qcmult_le_compat_r _ _ _ Hle (Qclt_le_weak _ _ Hf))). exact H.
    - exfalso. apply H. apply Qcmult_lt_compat_r; assumption. }
  rewrite !Hm. field. split; apply Qclt_not_eq'; assumption.
Qed.
