(* C05 under ROUNDED arithmetic: which panics the bookkeeping core can raise
   when every operation rounds like rust_decimal (or is exact).

   For every arithmetic whose operators fail only by overflow (division also
   by a zero divisor) and keep the sign of a non-negative result
   ([sign_arith]: both [exact] and [dec] qualify, the latter by FitProps.fit_sign),
   every history of rows that parse, any length / affiliates / order /
   opening position: a panic of the ledger is
     - an operator overflow, or
     - a strictly positive / strictly negative constrained quantity
       (PosDecimal / NegDecimal product, quotient or ratio) that rounded to
       ZERO ([strict_site]: underflow).
   Every other site of the modelled core - the GreaterEqualZero constructors,
   division by zero, the registered/ACB assertions, the missing-entry unwraps,
   the no-buyers assertion, and (since the fix "treat a superficial loss that
   rounds to zero effective cents as no superficial loss") the
   LessEqualZeroDecimal conversion of the effective-cent value - is
   unreachable under rounding too.  So are, since the fix "compute the
   all-affiliate share balance with one expression everywhere", the
   all-affiliate assert_eq! of set_latest_post_status (a rounding residue
   before: a third class) and the Buy arm's conversion of the all-affiliate
   balance (C05Assert: the assertion compares two evaluations of one
   expression).  The opening position must be a value of the arithmetic
   ([init_fits]). *)
From Coq Require Import List NArith ZArith QArith Qcanon Bool Lia.
From ACB Require Import Base.Outcome Base.QcExtra Base.Fit Base.Arith Model.Tx Model.Ledger Model.Sfl
     Model.DeltaList Proofs.Tactics Proofs.FitProps Proofs.C04Inv Proofs.C03Conserve Proofs.C05Sites
     Proofs.C05NoPanic Proofs.EffCent Proofs.AllAfter Proofs.C05Assert.
Import ListNotations.
Local Open Scope Qc_scope.

(* ---- the arithmetic interface ---- *)
Record sign_arith (A : arith) : Prop := {
  sa_add_p : forall a b p, a_add A a b = Panic p -> p = PanicOverflow;
  sa_sub_p : forall a b p, a_sub A a b = Panic p -> p = PanicOverflow;
  sa_mul_p : forall a b p, a_mul A a b = Panic p -> p = PanicOverflow;
  sa_div_p : forall a b p, a_div A a b = Panic p -> b <> 0 -> p = PanicOverflow;
  sa_add_nn : forall a b r, 0 <= a -> 0 <= b -> a_add A a b = Ok r -> 0 <= r;
  sa_mul_nn : forall a b r, 0 <= a -> 0 <= b -> a_mul A a b = Ok r -> 0 <= r;
  sa_div_nn : forall a b r, 0 <= a -> 0 < b -> a_div A a b = Ok r -> 0 <= r;
  sa_sub_nn : forall a b r, b <= a -> a_sub A a b = Ok r -> 0 <= r
}.

Lemma exact_sign : sign_arith exact.
Proof.
  constructor; cbn [a_add a_sub a_mul a_div exact]; intros a b.
  - intros p H; discriminate H.
  - intros p H; discriminate H.
  - intros p H; discriminate H.
  - intros p H Hb. destruct (Qceqb_spec b 0) as [E|_]; [contradiction | discriminate H].
  - intros r Ha Hb H. inversion H; subst. clear H. qc_lra.
  - intros r Ha Hb H. inversion H; subst. apply Qcmul_nonneg; assumption.
  - intros r Ha Hb H. destruct (Qceqb_spec b 0) as [E|_]; [discriminate H|].
    inversion H; subst. apply Qcdiv_nonneg; assumption.
  - intros r Hab H. inversion H; subst. clear H. qc_lra.
Qed.

Lemma fit_res_panic q p : fit_res q = Panic p -> p = PanicOverflow.
Proof. unfold fit_res. destruct (fit q); intros H; inversion H; reflexivity. Qed.
Lemma fit_res_nn q r : 0 <= q -> fit_res q = Ok r -> 0 <= r.
Proof.
  unfold fit_res. destruct (fit q) as [x|] eqn:E; intros Hq H; inversion H; subst.
  apply (proj1 (fit_sign q r E) Hq).
Qed.

Lemma dec_sign : sign_arith dec.
Proof.
  constructor; cbn [a_add a_sub a_mul a_div dec]; intros a b.
  - intros p H; exact (fit_res_panic _ _ H).
  - intros p H; exact (fit_res_panic _ _ H).
  - intros p H; exact (fit_res_panic _ _ H).
  - intros p H Hb. destruct (Qceqb_spec b 0) as [E|_]; [contradiction | exact (fit_res_panic _ _ H)].
  - intros r Ha Hb H. assert (Hs : 0 <= a + b) by (clear H; qc_lra). apply (fit_res_nn _ _ Hs H).
  - intros r Ha Hb H. apply (fit_res_nn _ _ (Qcmul_nonneg _ _ Ha Hb) H).
  - intros r Ha Hb H. destruct (Qceqb_spec b 0) as [E|_]; [discriminate H|].
    apply (fit_res_nn _ _ (Qcdiv_nonneg _ _ Ha Hb) H).
  - intros r Hab H. assert (Hs : 0 <= a - b) by (clear H; qc_lra). apply (fit_res_nn _ _ Hs H).
Qed.

(* ---- the panic classes ---- *)
Definition strict_sites : list N :=
  [Site.pos_mul; Site.pos_div; Site.neg_mul; Site.neg_div; Site.neg_mul_pos;
   Site.ratio_to_pos; Site.af_ratio_pos; Site.sfla_total].
Definition strict_site (s : N) : Prop := In s strict_sites.

Definition pclass (p : panic) : Prop :=
  p = PanicOverflow \/
  exists s, strict_site s /\ p = PanicConstraint s.

(* the effective-cent site (math.rs:93 before the fix, the LessEqualZeroDecimal
   conversion after it) is in no class *)
Lemma pclass_not_eff_cent p : pclass p -> p <> PanicConstraint Site.eff_cent.
Proof.
  intros [->|(s & Hs & ->)] E; try discriminate E.
  inversion E as [Es]. subst s. unfold strict_site, strict_sites in Hs. cbn in Hs.
  repeat (destruct Hs as [Hs|Hs]; [discriminate Hs|]). exact Hs.
Qed.

Lemma pc_over : pclass PanicOverflow. Proof. left; reflexivity. Qed.
Lemma pc_strict s : strict_site s -> pclass (PanicConstraint s).
Proof. intros H. right. exists s; auto. Qed.

(* the all-affiliate assertion of set_latest_post_status (rounding residue
   before the repair "one expression everywhere") is in no class either, nor is
   the Buy arm's conversion of the all-affiliate balance *)
Lemma pclass_not_set_latest_all p : pclass p -> p <> PanicAssert Site.set_latest_all.
Proof. intros [->|(s & Hs & ->)] E; discriminate E. Qed.
Lemma pclass_not_buy_all p : pclass p -> p <> PanicConstraint Site.buy_all.
Proof.
  intros [->|(s & Hs & ->)] E; try discriminate E.
  inversion E as [Es]. subst s. unfold strict_site, strict_sites in Hs. cbn in Hs.
  repeat (destruct Hs as [Hs|Hs]; [discriminate Hs|]). exact Hs.
Qed.

(* weakest-precondition style: [wp m Q] - m ends with a value satisfying Q,
   a rejection, or a panic of a listed class *)
Definition wp {T} (m : res T) (Q : T -> Prop) : Prop :=
  match m with Ok x => Q x | Rej _ => True | Panic p => pclass p end.

Lemma wp_bind {T U} (m : res T) (f : T -> res U) Q :
  wp m (fun x => wp (f x) Q) -> wp (bind m f) Q.
Proof. destruct m; cbn [wp bind]; auto. Qed.
Lemma wp_mono {T} (m : res T) (Q Q' : T -> Prop) :
  wp m Q -> (forall x, Q x -> Q' x) -> wp m Q'.
Proof. destruct m; cbn [wp]; auto. Qed.
Lemma wp_ok {T} (x : T) (Q : T -> Prop) : Q x -> wp (Ok x) Q. Proof. auto. Qed.
Lemma wp_rej {T} r (Q : T -> Prop) : wp (Rej r) Q. Proof. exact I. Qed.

Ltac wstep L := apply wp_bind; eapply wp_mono; [eapply L | cbv beta].

Section Sign.
  Variable A : arith.
  Hypothesis HA : sign_arith A.

  (* ---- raw operators ---- *)
  Lemma wp_add a b : wp (a_add A a b) (fun _ => True).
  Proof. destruct (a_add A a b) eqn:E; cbn [wp]; auto. rewrite (sa_add_p A HA _ _ _ E). apply pc_over. Qed.
  Lemma wp_sub a b : wp (a_sub A a b) (fun _ => True).
  Proof. destruct (a_sub A a b) eqn:E; cbn [wp]; auto. rewrite (sa_sub_p A HA _ _ _ E). apply pc_over. Qed.
  Lemma wp_mul a b : wp (a_mul A a b) (fun _ => True).
  Proof. destruct (a_mul A a b) eqn:E; cbn [wp]; auto. rewrite (sa_mul_p A HA _ _ _ E). apply pc_over. Qed.
  Lemma wp_div a b : b <> 0 -> wp (a_div A a b) (fun _ => True).
  Proof. intros Hb. destruct (a_div A a b) eqn:E; cbn [wp]; auto. rewrite (sa_div_p A HA _ _ _ E Hb). apply pc_over. Qed.
  Lemma wp_add_nn a b : 0 <= a -> 0 <= b -> wp (a_add A a b) (fun r => 0 <= r).
  Proof.
    intros Ha Hb. destruct (a_add A a b) eqn:E; cbn [wp]; auto.
    - exact (sa_add_nn A HA a b _ Ha Hb E).
    - rewrite (sa_add_p A HA _ _ _ E). apply pc_over.
  Qed.
  Lemma wp_mul_nn a b : 0 <= a -> 0 <= b -> wp (a_mul A a b) (fun r => 0 <= r).
  Proof.
    intros Ha Hb. destruct (a_mul A a b) eqn:E; cbn [wp]; auto.
    - exact (sa_mul_nn A HA a b _ Ha Hb E).
    - rewrite (sa_mul_p A HA _ _ _ E). apply pc_over.
  Qed.
  Lemma wp_div_nn a b : 0 <= a -> 0 < b -> wp (a_div A a b) (fun r => 0 <= r).
  Proof.
    intros Ha Hb. destruct (a_div A a b) eqn:E; cbn [wp]; auto.
    - exact (sa_div_nn A HA a b _ Ha Hb E).
    - rewrite (sa_div_p A HA _ _ _ E (Qclt_not_eq' _ Hb)). apply pc_over.
  Qed.

  Lemma wp_sub_nn a b : b <= a -> wp (a_sub A a b) (fun r => 0 <= r).
  Proof.
    intros Hab. destruct (a_sub A a b) eqn:E; cbn [wp]; auto.
    - exact (sa_sub_nn A HA a b _ Hab E).
    - rewrite (sa_sub_p A HA _ _ _ E). apply pc_over.
  Qed.

  (* ---- constrained constructors ---- *)
  Lemma wp_gez_unwrap s q : 0 <= q -> wp (gez_unwrap s q) (fun r => r = q /\ 0 <= r).
  Proof. intros Hq. unfold gez_unwrap. destruct (Qcleb_spec 0 q) as [_|Hc]; [cbn; auto | contradiction]. Qed.
  Lemma wp_pos_unwrap s q : strict_site s -> wp (pos_unwrap s q) (fun r => r = q /\ 0 < r).
  Proof. intros Hs. unfold pos_unwrap. destruct (Qcltb_spec 0 q) as [H|_]; cbn [wp]; [auto | apply pc_strict; exact Hs]. Qed.
  Lemma wp_neg_unwrap s q : strict_site s -> wp (neg_unwrap s q) (fun r => r = q /\ r < 0).
  Proof. intros Hs. unfold neg_unwrap. destruct (Qcltb_spec q 0) as [H|_]; cbn [wp]; [auto | apply pc_strict; exact Hs]. Qed.

  Ltac site := unfold strict_site, strict_sites; cbn; tauto.

  Lemma wp_gez_add a b : 0 <= a -> 0 <= b -> wp (gez_add A a b) (fun r => 0 <= r).
  Proof.
    intros Ha Hb. unfold gez_add. wstep (wp_add_nn a b Ha Hb). intros r Hr.
    eapply wp_mono; [apply wp_gez_unwrap; exact Hr | cbv beta; intros x [_ Hx]; exact Hx].
  Qed.
  Lemma wp_gez_mul a b : 0 <= a -> 0 <= b -> wp (gez_mul A a b) (fun r => 0 <= r).
  Proof.
    intros Ha Hb. unfold gez_mul. wstep (wp_mul_nn a b Ha Hb). intros r Hr.
    eapply wp_mono; [apply wp_gez_unwrap; exact Hr | cbv beta; intros x [_ Hx]; exact Hx].
  Qed.
  Lemma wp_gez_div a b : 0 <= a -> 0 < b -> wp (gez_div A a b) (fun r => 0 <= r).
  Proof.
    intros Ha Hb. unfold gez_div. wstep (wp_div_nn a b Ha Hb). intros r Hr.
    eapply wp_mono; [apply wp_gez_unwrap; exact Hr | cbv beta; intros x [_ Hx]; exact Hx].
  Qed.
  Lemma wp_pos_mul a b : wp (pos_mul A a b) (fun r => 0 < r).
  Proof.
    unfold pos_mul. wstep (wp_mul a b). intros r _.
    eapply wp_mono; [apply wp_pos_unwrap; site | cbv beta; intros x [_ Hx]; exact Hx].
  Qed.
  Lemma wp_pos_div a b : b <> 0 -> wp (pos_div A a b) (fun r => 0 < r).
  Proof.
    intros Hb. unfold pos_div. wstep (wp_div a b Hb). intros r _.
    eapply wp_mono; [apply wp_pos_unwrap; site | cbv beta; intros x [_ Hx]; exact Hx].
  Qed.
  Lemma wp_neg_mul a b : wp (neg_mul A a b) (fun r => 0 < r).
  Proof.
    unfold neg_mul. wstep (wp_mul a b). intros r _.
    eapply wp_mono; [apply wp_pos_unwrap; site | cbv beta; intros x [_ Hx]; exact Hx].
  Qed.
  Lemma wp_neg_div a b : b <> 0 -> wp (neg_div A a b) (fun r => 0 < r).
  Proof.
    intros Hb. unfold neg_div. wstep (wp_div a b Hb). intros r _.
    eapply wp_mono; [apply wp_pos_unwrap; site | cbv beta; intros x [_ Hx]; exact Hx].
  Qed.
  Lemma wp_neg_mul_pos a b : wp (neg_mul_pos A a b) (fun r => r < 0).
  Proof.
    unfold neg_mul_pos. wstep (wp_mul a b). intros r _.
    eapply wp_mono; [apply wp_neg_unwrap; site | cbv beta; intros x [_ Hx]; exact Hx].
  Qed.

  (* ---- ledger primitives ---- *)
  Lemma wp_per_share s : status_ok s ->
    wp (per_share_acb A s) (fun o => forall x, o = Some x -> 0 <= x).
  Proof.
    intros (Hsh & _ & Hacb). unfold per_share_acb. destruct (s_acb s) as [acb|] eqn:E.
    - destruct (Qcltb_spec 0 (s_sh s)) as [Hp|_].
      + wstep (wp_gez_div acb (s_sh s) (Hacb _ eq_refl) Hp). intros r Hr. cbn [wp]. intros x Hx; inversion Hx; subst; exact Hr.
      + cbn [wp]. intros x Hx; inversion Hx; subst. apply Qcle_refl.
    - cbn [wp]. intros x Hx; discriminate Hx.
  Qed.

  Lemma wp_local_value sh aps rate : 0 <= sh -> 0 <= aps -> 0 <= rate ->
    wp (local_value A sh aps rate) (fun r => 0 <= r).
  Proof.
    intros H1 H2 H3. unfold local_value. wstep (wp_gez_mul aps sh H2 H1). intros v Hv.
    apply wp_gez_mul; assumption.
  Qed.

  Lemma wp_split_factor post pre : 0 < pre -> wp (split_factor A post pre) (fun f => 0 < f).
  Proof. intros Hp. unfold split_factor. apply wp_pos_div. apply Qclt_not_eq'. exact Hp. Qed.

  (* the all-affiliate expression: panics only by overflow; not negative when
     the affiliate's old balance is at most the total (what sanity_check_ptfs
     verifies) *)
  Lemma wp_all_after a o n : wp (all_after A a o n) (fun _ => True).
  Proof.
    unfold all_after. destruct (Qceqb n o); [exact I|].
    wstep wp_sub. intros oth _. apply wp_add.
  Qed.
  Lemma wp_all_after_nn a o n : o <= a -> 0 <= a -> 0 <= n -> wp (all_after A a o n) (fun r => 0 <= r).
  Proof.
    intros Hoa Ha Hn. unfold all_after. destruct (Qceqb n o); [exact Ha|].
    wstep (wp_sub_nn a o Hoa). intros oth Hoth. apply wp_add_nn; assumption.
  Qed.

  (* after a row of delta_for_tx the status tracker cannot panic: its
     all-affiliate assertion compares two evaluations of one expression
     (C05Assert), its other assertion is what the sanity check established *)
  Lemma set_latest_no_panic bef t aft st d inj :
    delta_for_tx A bef t aft st = Ok (d, inj) ->
    Bool.eqb (af_reg (t_af t)) (is_none (s_acb (d_post d))) = true ->
    exists st1, set_latest A st (t_af t) (d_post d) = Ok st1.
  Proof.
    intros Ed Hb. rewrite (set_latest_after_delta A _ _ _ _ _ _ Ed), Hb. cbn [negb]. eexists. reflexivity.
  Qed.

  Lemma wp_sell_core pre sh aps com rate crate :
    status_ok pre -> 0 < sh -> 0 <= aps -> 0 <= com -> 0 < rate -> 0 < crate ->
    wp (sell_core A pre sh aps com rate crate) (fun _ => True).
  Proof.
    intros Hpre Hsh Haps Hcom Hrate Hcrate. unfold sell_core.
    wstep wp_sub. intros nsh _. destruct (Qcltb_spec nsh 0) as [|Hn1]; [exact I|]. apply Qcnot_lt_le in Hn1.
    wstep wp_all_after. intros nall _. destruct (Qcltb nall 0); [exact I|].
    wstep (wp_per_share pre Hpre). intros maps Hm. destruct maps as [acbps|]; [|exact I].
    specialize (Hm _ eq_refl).
    wstep (wp_gez_mul nsh acbps Hn1 Hm). intros nacb _.
    wstep (wp_local_value sh aps rate (Qclt_le_weak _ _ Hsh) Haps (Qclt_le_weak _ _ Hrate)). intros v _.
    wstep (wp_gez_mul com crate Hcom (Qclt_le_weak _ _ Hcrate)). intros c _.
    wstep wp_sub. intros payout _. wstep wp_mul. intros cost _. wstep wp_sub. intros g _. exact I.
  Qed.

  (* all arms except Sell; [Hr]/[Hn] are what sanity_check established *)
  Lemma wp_nonsell t pre :
    status_ok pre -> vtx t -> s_sh pre <= s_all pre ->
    (af_reg (t_af t) = true -> s_acb pre = None) -> (af_reg (t_af t) = false -> s_acb pre <> None) ->
    wp (delta_nonsell A t pre) (fun _ => True).
  Proof.
    intros (Hsh & Hall & Hacb) Hv Hle Hr Hn. unfold delta_nonsell. unfold vtx, valid_tx in Hv.
    destruct (t_act t) as [n price com rate crate | n price com rate crate sp | amount rate
                          | n amount | post pre_ io] eqn:Ea; cbn [valid_action] in Hv.
    - vsplit Hv. apply Qcltb_true in Hv. apply Qcleb_true in V2. apply Qcleb_true in V1.
      apply Qcltb_true in V0. apply Qcltb_true in V.
      wstep (wp_gez_add (s_sh pre) n Hsh (Qclt_le_weak _ _ Hv)). intros nsh Hnsh.
      wstep (wp_all_after_nn (s_all pre) (s_sh pre) nsh Hle Hall Hnsh). intros r0 Hr0.
      wstep (wp_gez_unwrap Site.buy_all r0 Hr0). intros nall _.
      destruct (s_acb pre) as [old|] eqn:Eo; [|exact I].
      wstep (wp_local_value n price rate (Qclt_le_weak _ _ Hv) V2 (Qclt_le_weak _ _ V0)). intros v Hv0.
      wstep (wp_gez_mul com crate V1 (Qclt_le_weak _ _ V)). intros c Hc.
      wstep (wp_gez_add v c Hv0 Hc). intros pr Hpr.
      wstep (wp_gez_add old pr (Hacb _ eq_refl) Hpr). intros nacb _. exact I.
    - exact I.
    - vsplit Hv. apply Qcleb_true in Hv. apply Qcltb_true in V.
      destruct (s_acb pre) as [old|] eqn:Eo.
      + destruct (af_reg (t_af t)) eqn:Er; [specialize (Hr eq_refl); discriminate Hr|].
        wstep (wp_gez_mul amount (s_sh pre) Hv Hsh). intros v Hv0.
        wstep (wp_gez_mul v rate Hv0 (Qclt_le_weak _ _ V)). intros red _.
        wstep wp_sub. intros nacb _. destruct (Qcltb nacb 0); exact I.
      + destruct (af_reg (t_af t)) eqn:Er; cbn [negb]; [exact I|]. exfalso. apply (Hn eq_refl). reflexivity.
    - vsplit Hv. apply Qcltb_true in Hv. apply Qcltb_true in V.
      destruct (s_acb pre) as [old|] eqn:Eo.
      + destruct (af_reg (t_af t)) eqn:Er; [specialize (Hr eq_refl); discriminate Hr|].
        wstep wp_mul. intros m _.
        wstep (wp_pos_unwrap Site.sfla_total m). { unfold strict_site, strict_sites; cbn; tauto. }
        intros amt [_ Hamt].
        wstep (wp_gez_add old amt (Hacb _ eq_refl) (Qclt_le_weak _ _ Hamt)). intros nacb _. exact I.
      + destruct (af_reg (t_af t)) eqn:Er; cbn [negb]; [exact I|]. exfalso. apply (Hn eq_refl). reflexivity.
    - vsplit Hv. apply Qcltb_true in Hv. apply Qcltb_true in V.
      wstep (wp_mul_nn (s_sh pre) post Hsh (Qclt_le_weak _ _ Hv)). intros m Hm.
      wstep (wp_div_nn m pre_ Hm V). intros qd Hqd.
      wstep (wp_gez_unwrap Site.split_balance qd Hqd). intros nsh _.
      wstep wp_all_after. intros nall _.
      destruct (Qcltb nall 0); [exact I|]. destruct (_ && _); exact I.
  Qed.

  (* ---- the window scans ---- *)
  Lemma wp_fwd_scan last dflt aft : (forall a, 0 <= dflt a) -> Forall vtx aft ->
    forall adj s, adj_pos adj -> scan_nn s -> wp (fwd_scan A last dflt aft adj s) scan_nn.
  Proof.
    intros Hd. induction aft as [|x aft IH]; intros HV adj s Hadj Hs; cbn [fwd_scan]; [exact Hs|].
    apply Forall_cons_iff in HV as [Hx HV]. specialize (IH HV).
    destruct (Z.ltb last (t_sd x)); [exact Hs|].
    destruct Hs as (He & Ha & Hact). pose proof (adj_of_pos (t_af x) adj Hadj) as Hsa.
    pose proof (old_nonneg dflt (t_af x) _ Hact Hd) as Hold.
    unfold vtx, valid_tx in Hx.
    destruct (t_act x) as [sh aps com rate crate | sh aps com rate crate sp | aps rate | sh aps | post pre io];
      cbn [valid_action] in Hx.
    - vsplit Hx. apply Qcltb_true in Hx.
      wstep (wp_gez_div sh _ (Qclt_le_weak _ _ Hx) Hsa). intros b Hb.
      wstep (wp_gez_add (sc_eop s) b He Hb). intros eop Heop.
      wstep (wp_gez_add _ b Hold Hb). intros na Hna.
      wstep (wp_gez_add (sc_acq s) b Ha Hb). intros acq Hacq.
      apply IH; [exact Hadj|]. split; [exact Heop|]. split; [exact Hacq|].
      cbn [sc_active]. apply active_update; assumption.
    - vsplit Hx. apply Qcltb_true in Hx.
      wstep (wp_gez_div sh _ (Qclt_le_weak _ _ Hx) Hsa). intros b Hb.
      wstep wp_sub. intros eop _. destruct (Qcltb_spec eop 0) as [|Hn1]; [exact I|].
      wstep wp_sub. intros na _. destruct (Qcltb_spec na 0) as [|Hn2]; [exact I|].
      apply IH; [exact Hadj|]. split; [apply Qcnot_lt_le; exact Hn1|]. split; [exact Ha|].
      cbn [sc_active]. apply active_update; [exact Hact | apply Qcnot_lt_le; exact Hn2].
    - apply IH; [exact Hadj | repeat split; assumption].
    - apply IH; [exact Hadj | repeat split; assumption].
    - vsplit Hx. apply Qcltb_true in Hx. apply Qcltb_true in V.
      wstep (wp_split_factor post pre V). intros f Hf.
      wstep (wp_pos_mul (adj_of (t_af x) adj) f). intros nsa Hnsa.
      apply IH; [apply adj_pos_update; assumption | repeat split; assumption].
  Qed.

  Lemma wp_bwd_scan first dflt bef : (forall a, 0 <= dflt a) -> Forall vtx bef ->
    forall adj s, adj_pos adj -> scan_nn s -> wp (bwd_scan A first dflt bef adj s) scan_nn.
  Proof.
    intros Hd. induction bef as [|x bef IH]; intros HV adj s Hadj Hs; cbn [bwd_scan]; [exact Hs|].
    apply Forall_cons_iff in HV as [Hx HV]. specialize (IH HV).
    destruct (Z.ltb (t_sd x) first); [exact Hs|].
    destruct Hs as (He & Ha & Hact).
    unfold vtx, valid_tx in Hx.
    destruct (t_act x) as [sh aps com rate crate | sh aps com rate crate sp | aps rate | sh aps | post pre io];
      cbn [valid_action] in Hx.
    - wstep (wp_pos_mul sh (adj_of (t_af x) adj)). intros b Hb.
      wstep (wp_gez_add (sc_acq s) b Ha (Qclt_le_weak _ _ Hb)). intros acq Hacq.
      apply IH; [exact Hadj|]. split; [exact He|]. split; [exact Hacq|]. cbn [sc_active].
      destruct (amem _ _); [exact Hact | apply active_update; [exact Hact | apply Hd]].
    - apply IH; [exact Hadj | repeat split; assumption].
    - apply IH; [exact Hadj | repeat split; assumption].
    - apply IH; [exact Hadj | repeat split; assumption].
    - vsplit Hx. apply Qcltb_true in V.
      wstep (wp_split_factor post pre V). intros f Hf.
      wstep (wp_pos_mul (adj_of (t_af x) adj) f). intros nsa Hnsa.
      apply IH; [apply adj_pos_update; assumption | repeat split; assumption].
  Qed.

  Lemma bwd_scan_eop_any first dflt bef : forall adj s s',
    bwd_scan A first dflt bef adj s = Ok s' -> sc_eop s' = sc_eop s.
  Proof.
    induction bef as [|x bef IH]; intros adj s s' H; cbn [bwd_scan] in H; [inversion H; reflexivity|].
    destruct (Z.ltb _ _); [inversion H; reflexivity|].
    destruct (t_act x); try (eapply IH; exact H).
    - bind_as H as b E1. bind_as H as acq E2. apply IH in H. exact H.
    - bind_as H as fa E1. bind_as H as nsa E2. eapply IH; exact H.
  Qed.

  (* ---- get_superficial_loss_info ---- *)
  Lemma wp_sfl_info bef t sold aft st :
    st_ok st -> Forall vtx bef -> Forall vtx aft ->
    wp (sfl_info A bef t sold aft st)
       (fun o => forall s, o = Some s -> scan_nn s /\ 0 < sc_eop s /\ 0 < sc_acq s /\ scan_ok s).
  Proof.
    intros Hst Hb Ha.
    pose proof (fun s => sfl_info_ok A bef t sold aft st s) as Hok.
    unfold sfl_info in *. fold (dflt_of st) in *.
    change (match latest_for st (t_af t) with Some s => s_sh s | None => 0 end) with (dflt_of st (t_af t)) in *.
    destruct (a_sub A (s_all (latest_post_status st)) sold) as [all0| |p0] eqn:E0; cbn [bind] in *;
      [| exact I | cbn [wp]; rewrite (sa_sub_p A HA _ _ _ E0); apply pc_over].
    destruct (Qcltb_spec all0 0) as [|H1]; [exact I|]. apply Qcnot_lt_le in H1.
    destruct (a_sub A (dflt_of st (t_af t)) sold) as [af0| |p1] eqn:E1; cbn [bind] in *;
      [| exact I | cbn [wp]; rewrite (sa_sub_p A HA _ _ _ E1); apply pc_over].
    destruct (Qcltb_spec af0 0) as [|H2]; [exact I|]. apply Qcnot_lt_le in H2.
    set (s0 := {| sc_eop := all0; sc_acq := 0; sc_buyers := []; sc_active := [(af_id (t_af t), af0)] |}) in *.
    assert (Hs0 : scan_nn s0).
    { split; [exact H1|]. split; [apply Qcle_refl|].
      intros k v. cbn [s0 sc_active alookup]. destruct (N.eqb k _); [|discriminate].
      intros E; inversion E; subst. exact H2. }
    pose proof (wp_fwd_scan (t_sd t + window_days) (dflt_of st) aft (fun a => dflt_nonneg st a Hst) Ha [] s0
                            ltac:(intros k v E; discriminate E) Hs0) as W1.
    destruct (fwd_scan A _ _ aft [] s0) as [s1| |q] eqn:Ef; cbn [bind wp] in *; [| exact I | exact W1].
    destruct (Qcltb_spec 0 (sc_eop s1)) as [Hpos|]; cbn [negb] in *; [|cbn [wp]; intros s E; discriminate E].
    pose proof (wp_bwd_scan (t_sd t - window_days) (dflt_of st) bef (fun a => dflt_nonneg st a Hst) Hb [] s1
                            ltac:(intros k v E; discriminate E) W1) as W2.
    destruct (bwd_scan A _ _ bef [] s1) as [s2| |q] eqn:Eb; cbn [bind wp] in *; [| exact I | exact W2].
    destruct (Qcltb_spec 0 (sc_acq s2)) as [Hacq|]; cbn [wp]; [|intros s E; discriminate E].
    intros s E. inversion E; subst s. split; [exact W2|].
    split; [rewrite (bwd_scan_eop_any _ _ _ _ _ _ Eb); exact Hpos|]. split; [exact Hacq|].
    destruct (Hok s2 eq_refl) as [Hsk _]. exact Hsk.
  Qed.

  (* ---- calc_superficial_loss_ratio ---- *)
  Lemma wp_sum_buyers active l : active_nonneg active -> forall acc, 0 <= acc ->
    wp (sum_buyers A active l acc) (fun total => 0 <= total).
  Proof.
    intros Hact. induction l as [|a l IH]; intros acc Hacc; cbn [sum_buyers]; [exact Hacc|].
    assert (Hv : 0 <= match alookup (af_id a) active with Some d => d | None => 0 end).
    { destruct (alookup (af_id a) active) eqn:E; [eapply Hact; exact E | apply Qcle_refl]. }
    wstep (wp_gez_add acc _ Hacc Hv). intros acc' Hacc'. apply IH. exact Hacc'.
  Qed.

  Lemma wp_sfl_ratio sold s :
    scan_nn s -> scan_ok s -> 0 < sc_acq s ->
    wp (sfl_ratio A sold (Some s))
       (fun o => exists r, o = Some r /\ sr_num r = min3 sold (sc_acq s) (sc_eop s) /\ sr_den r = sold /\
                           Forall portion_ok (sr_portions r)).
  Proof.
    intros (He & Ha & Hact) [Hb1 Hb2] Hacq. unfold sfl_ratio.
    destruct (sc_buyers s) as [|b bs] eqn:Eb.
    { exfalso. rewrite (Hb1 eq_refl) in Hacq. apply (Qcle_not_lt 0 0 (Qcle_refl 0) Hacq). }
    rewrite <- Eb.
    wstep (wp_sum_buyers (sc_active s) (sort_affs (sc_buyers s)) Hact 0 (Qcle_refl 0)). intros total Ht.
    destruct (Qcltb_spec 0 total) as [Hpos|_].
    - destruct (portions_np (sc_active s) total (sort_affs (sc_buyers s)) Hact Hpos) as (ps & Eps & Hps).
      { intros a Hin. apply Hb2. rewrite <- Eb. apply in_sort_affs. exact Hin. }
      rewrite Eps. cbn [bind wp]. eexists. split; [reflexivity|]. cbn. auto.
    - cbn [bind wp]. eexists. split; [reflexivity|]. cbn. auto.
  Qed.

  Lemma wp_eff_cent d : d <= 0 -> wp (eff_cent A d) (fun c => c <= 0).
  Proof.
    intros Hd. unfold eff_cent. wstep wp_sub. intros diff _.
    destruct (Qcltb _ _); cbn [wp]; [apply round2_nonpos; exact Hd | exact Hd].
  Qed.

  (* the LessEqualZeroDecimal conversion of the repaired code cannot fail, in
     any sign-preserving arithmetic *)
  Lemma wp_eff_cent_site d :
    d <= 0 -> wp (c <- eff_cent A d ;; lez_unwrap Site.eff_cent c) (fun c => c <= 0).
  Proof.
    intros Hd. wstep (wp_eff_cent d Hd). intros c Hc.
    rewrite (lez_unwrap_nonpos _ _ Hc). exact Hc.
  Qed.

  (* ---- generated SfLA rows ---- *)
  Lemma wp_gen_sfla t loss ps :
    Forall portion_ok ps -> wp (gen_sfla A t loss ps) (Forall vtx).
  Proof.
    induction ps as [|[af [n d]] ps IH]; intros HF; cbn [gen_sfla]; [constructor|].
    apply Forall_cons_iff in HF as [[Hn Hd] HF]. cbn [fst snd] in Hn, Hd. specialize (IH HF).
    destruct (Qceqb n 0); cbn [negb andb]; [exact IH|].
    destruct (af_reg af); cbn [negb]; [exact IH|].
    wstep (wp_div_nn n d Hn Hd). intros q Hq.
    wstep (wp_gez_unwrap Site.ratio_to_gez q Hq). intros q1 [_ _].
    wstep (wp_pos_unwrap Site.af_ratio_pos q1). { unfold strict_site, strict_sites; cbn; tauto. }
    intros q2 [_ _].
    wstep (wp_neg_mul (-(1)) loss). intros m _.
    wstep (wp_pos_mul m q2). intros amt Hamt.
    wstep IH. intros rest Hrest. cbn [wp]. constructor; [|exact Hrest].
    unfold vtx, valid_tx. cbn [t_act valid_action].
    apply andb_true_intro. split; apply Qcltb_true; [reflexivity | exact Hamt].
  Qed.

  (* ---- get_delta_superficial_loss_info ---- *)
  Lemma wp_delta_sfl bef t sold spec aft st loss :
    st_ok st -> Forall vtx bef -> Forall vtx aft -> 0 < sold -> loss < 0 ->
    wp (delta_sfl A bef t sold spec aft st loss)
       (fun o => forall info inj, o = Some (info, inj) -> Forall vtx inj).
  Proof.
    intros Hst Hb Ha Hsold Hloss. unfold delta_sfl.
    assert (Hl0 : loss <> 0) by (apply Qcneg_not0; exact Hloss).
    assert (Hs0 : sold <> 0) by (apply Qclt_not_eq'; exact Hsold).
    (* the user-supplied branch is the same whatever the scans found *)
    assert (Hspec : forall (sv : Qc) (force : bool) (calc : Qc),
      wp (chk <- (if force then Ok tt else
                    d <- a_sub A calc sv ;;
                    if Qcltb (Qcfrac 1 1000) (Qcabs d) then Rej RejSflMismatch else Ok tt) ;;
          if negb (Qcltb sv 0) then Ok None else
          q <- neg_div A sv loss ;;
          n <- pos_mul A q sold ;;
          Ok (Some ({| sf_amount := sv; sf_num := n; sf_den := sold; sf_over := false |}, [])))
         (fun o => forall info inj, o = Some (info, inj) -> Forall vtx inj)).
    { intros sv force calc. apply wp_bind.
      assert (Hchk : wp (if force then Ok tt else
                    d <- a_sub A calc sv ;;
                    if Qcltb (Qcfrac 1 1000) (Qcabs d) then Rej RejSflMismatch else Ok tt) (fun _ => True)).
      { destruct force; [exact I|]. wstep wp_sub. intros d _. destruct (Qcltb _ _); exact I. }
      eapply wp_mono; [exact Hchk|]. cbv beta. intros _ _.
      destruct (negb (Qcltb sv 0)); [cbn [wp]; intros info inj E; discriminate E|].
      wstep (wp_neg_div sv loss Hl0). intros q _.
      wstep (wp_pos_mul q sold). intros n _. cbn [wp].
      intros info inj E. inversion E; subst. constructor. }
    wstep (wp_sfl_info bef t sold aft st Hst Hb Ha). intros info Hinfo.
    destruct info as [s|].
    - destruct (Hinfo s eq_refl) as (Hnn & Heop & Hacq & Hok).
      wstep (wp_sfl_ratio sold s Hnn Hok Hacq). intros m (r & -> & Hnum & Hden & Hps).
      rewrite Hden.
      apply wp_bind.
      assert (Hcalc : wp (q <- a_div A (sr_num r) sold ;;
                          q1 <- pos_unwrap Site.ratio_to_pos q ;;
                          l <- neg_mul_pos A loss q1 ;;
                          c <- eff_cent A l ;;
                          lez_unwrap Site.eff_cent c) (fun calc => calc <= 0)).
      { wstep (wp_div (sr_num r) sold Hs0). intros q _.
        wstep (wp_pos_unwrap Site.ratio_to_pos q). { unfold strict_site, strict_sites; cbn; tauto. }
        intros q1 _. wstep (wp_neg_mul_pos loss q1). intros l Hl.
        apply (wp_eff_cent_site l (Qclt_le_weak _ _ Hl)). }
      eapply wp_mono; [exact Hcalc|]. cbv beta. intros calc Hcalc0.
      destruct spec as [[sv force]|]; [apply Hspec|].
      destruct (Qcltb calc 0); cbn [negb]; [|cbn [wp]; intros info inj E; discriminate E].
      wstep (wp_gen_sfla t calc (sr_portions r) Hps). intros txs Htxs. cbn [wp].
      intros info inj E. inversion E; subst. exact Htxs.
    - cbn [sfl_ratio bind]. destruct spec as [[sv force]|]; [apply Hspec|].
      cbn [wp]. intros info inj E; discriminate E.
  Qed.

  (* ---- delta_for_tx ---- *)
  Lemma wp_delta_for_tx bef t aft st :
    st_ok st -> vtx t -> Forall vtx bef -> Forall vtx aft ->
    wp (delta_for_tx A bef t aft st) (fun di => Forall vtx (snd di)).
  Proof.
    intros Hst Hv Hb Ha. unfold delta_for_tx.
    pose proof (next_pre_ok st (t_af t) Hst) as Hpre.
    set (pre := next_pre_status st (t_af t)) in *.
    destruct (sanity_check pre (t_af t)) as [[]| |] eqn:Es; cbn [bind]; [| exact I | ].
    2: { exfalso. unfold sanity_check in Es. destruct (Qcltb _ _); [discriminate|].
         destruct (_ && _); [discriminate|]. destruct (_ && _); discriminate. }
    assert (Hle : s_sh pre <= s_all pre).
    { unfold sanity_check in Es. destruct (Qcltb_spec (s_all pre) (s_sh pre)) as [|Hge]; [discriminate|].
      apply Qcnot_lt_le. exact Hge. }
    apply sanity_ok in Es as [Hr Hn].
    destruct (t_act t) as [n price com rate crate | n price com rate crate sp | amount rate
                          | n amount | post pre_ io] eqn:Ea.
    2: { pose proof Hv as Hv'. unfold vtx, valid_tx in Hv'. rewrite Ea in Hv'. cbn [valid_action] in Hv'.
         vsplit Hv'. apply Qcltb_true in Hv'. apply Qcleb_true in V3. apply Qcleb_true in V2.
         apply Qcltb_true in V1. apply Qcltb_true in V0.
         wstep (wp_sell_core pre n price com rate crate Hpre Hv' V3 V2 V1 V0). intros c _.
         destruct (sc_gain c) as [g|]; [|cbn [wp snd]; constructor].
         destruct (Qcltb_spec g 0) as [Hg|_].
         - wstep (wp_delta_sfl bef t n sp aft st g Hst Hb Ha Hv' Hg). intros m Hm.
           destruct m as [[info inj]|]; [|cbn [wp snd]; constructor].
           wstep wp_sub. intros g' _. cbn [wp snd]. eapply Hm; reflexivity.
         - destruct sp; cbn [wp snd]; [exact I | constructor]. }
    all: wstep (wp_nonsell t pre Hpre Hv Hle Hr Hn); intros d _; cbn [wp snd]; constructor.
  Qed.

  (* ---- whole runs ---- *)
  Lemma post_flag bef t aft st d inj :
    delta_for_tx A bef t aft st = Ok (d, inj) -> st_ok st ->
    Bool.eqb (af_reg (t_af t)) (is_none (s_acb (d_post d))) = true /\ status_ok (d_post d).
  Proof.
    intros Ed Hst. destruct (delta_for_tx_ok A _ _ _ _ _ _ Ed Hst) as [Et (Hs & Hr & Hn)].
    rewrite Et in Hr, Hn. split; [|exact Hs].
    destruct (af_reg (t_af t)) eqn:Er.
    - destruct (Hr eq_refl) as [E _]. rewrite E. reflexivity.
    - specialize (Hn eq_refl). destruct (s_acb (d_post d)); [reflexivity | contradiction Hn; reflexivity].
  Qed.

  Lemma run_injected_pc inj : forall bef st aft ds bef' st' o,
    run_injected A bef st inj aft = (ds, bef', st', o) ->
    st_ok st -> Forall vtx inj -> Forall vtx bef -> Forall vtx aft ->
    (forall p, o = Some (SPanic p) -> pclass p) /\ Forall vtx bef' /\ st_ok st'.
  Proof.
    induction inj as [|t inj IH]; intros bef st aft ds bef' st' o H Hst HV Hb Ha; cbn [run_injected] in H.
    - inversion H; subst. split; [intros p E; discriminate E | auto].
    - apply Forall_cons_iff in HV as [Hv HV].
      assert (Hia : Forall vtx (inj ++ aft)) by (apply Forall_app; split; assumption).
      pose proof (wp_delta_for_tx bef t (inj ++ aft) st Hst Hv Hb Hia) as Hg.
      destruct (delta_for_tx A bef t (inj ++ aft) st) as [[d i]| r0 |q] eqn:Ed; cbn [wp] in Hg.
      + destruct (post_flag _ _ _ _ _ _ Ed Hst) as [Hflag Hpost].
        destruct (set_latest_no_panic _ _ _ _ _ _ Ed Hflag) as [st1 Es]. rewrite Es in H.
        destruct (run_injected A (t :: bef) st1 inj aft) as [[[ds1 b1] s1] o1] eqn:Er.
        inversion H; subst; clear H.
        eapply IH; [exact Er | eapply set_latest_ok; eauto | exact HV | constructor; assumption | exact Ha].
      + inversion H; subst. split; [intros p E; discriminate E | auto].
      + inversion H; subst. split; [intros p E; inversion E; subst; exact Hg | auto].
  Qed.

  Lemma run_loop_pc aft : forall bef st ds p,
    run_loop A bef st aft = (ds, Some (SPanic p)) ->
    st_ok st -> Forall vtx aft -> Forall vtx bef -> pclass p.
  Proof.
    induction aft as [|t aft IH]; intros bef st ds p H Hst HV HVb; cbn [run_loop] in H; [discriminate|].
    apply Forall_cons_iff in HV as [Hv HV].
    pose proof (wp_delta_for_tx bef t aft st Hst Hv HVb HV) as Hg.
    destruct (delta_for_tx A bef t aft st) as [[d inj]| r0 |q] eqn:Ed; cbn [wp snd] in Hg.
    - destruct (post_flag _ _ _ _ _ _ Ed Hst) as [Hflag Hpost].
      destruct (set_latest_no_panic _ _ _ _ _ _ Ed Hflag) as [st1 Es]. rewrite Es in H.
      destruct (run_injected A (t :: bef) st1 inj aft) as [[[dsi b1] st2] o1] eqn:Er.
      destruct (run_injected_pc inj _ _ _ _ _ _ _ Er (set_latest_ok A _ _ _ _ Es Hst Hpost) Hg
                                (Forall_cons _ Hv HVb) HV) as (Hp & Hvb1 & Hst2).
      destruct o1 as [s1|].
      + inversion H; subst. apply Hp. reflexivity.
      + destruct (run_loop A b1 st2 aft) as [ds2 o2] eqn:El. inversion H; subst o2.
        eapply IH; [exact El | exact Hst2 | exact HV | exact Hvb1].
    - discriminate.
    - inversion H; subst. exact Hg.
  Qed.

  (* the opening position (--symbol-base) is the one status that does not come
     from delta_for_tx: set_latest_post_status evaluates the expression on
     (0, 0, opening balance), i.e. (0 - 0) + balance, and compares it with the
     balance.  A rust_decimal value passes; [init_fits] says the opening
     balance is a value of the arithmetic in that sense. *)
  Definition init_fits (init : option status) : Prop :=
    forall i, init = Some i -> all_after A 0 0 (s_sh i) = Ok (s_sh i).

  Lemma init_state_pc init p :
    init_state A init = Panic p -> init_ok2 init ->
    pclass p \/ (p = PanicAssert Site.set_latest_all /\ ~ init_fits init).
  Proof.
    intros Ei Hi. unfold init_state in Ei. destruct init as [i|]; [|discriminate Ei].
    destruct (Hi i eq_refl) as (Hs & Hacb & Hb).
    destruct (Qceqb_spec (s_sh i) (s_all i)) as [_|Hn]; [|contradiction]. cbn [negb] in Ei.
    unfold set_latest in Ei. cbn [latest_for ps_map alookup ps_all] in Ei.
    pose proof (wp_all_after 0 0 (s_sh i)) as W.
    destruct (all_after A 0 0 (s_sh i)) as [e| r0 |q] eqn:Ee; cbn [bind wp] in *.
    - assert (Hflag : Bool.eqb (af_reg default_aff) (is_none (s_acb i)) = true).
      { cbn [default_aff af_reg]. destruct (s_acb i); [reflexivity | contradiction Hacb; reflexivity]. }
      rewrite Hflag in Ei. cbn [negb] in Ei.
      destruct (Qceqb_spec (s_all i) e) as [E|N]; cbn [negb] in Ei; [discriminate Ei|].
      inversion Ei; subst p. right. split; [reflexivity|].
      intros Hf. specialize (Hf i eq_refl). rewrite Ee in Hf. inversion Hf. apply N. congruence.
    - discriminate Ei.
    - inversion Ei; subst q. left. exact W.
  Qed.

  (* every panic of a run is of a listed class - or it is the opening position
     failing the status assertion before any row, which needs an opening
     balance that is not a value of the arithmetic *)
  Theorem run_panic_classes_any_init init txs ds p :
    run A init txs = (ds, Some (SPanic p)) ->
    init_ok2 init -> Forall vtx txs ->
    pclass p \/ (p = PanicAssert Site.set_latest_all /\ ds = [] /\ ~ init_fits init).
  Proof.
    unfold run. destruct txs as [|t txs]; intros H Hi HV; [discriminate|].
    assert (Hs0 : st_ok {| ps_map := []; ps_all := 0; ps_latest := default_aff |})
      by (split; cbn; [constructor | apply Qcle_refl]).
    destruct (init_state A init) as [st| r0 |q] eqn:Ei.
    - left. assert (Hst : st_ok st).
      { unfold init_state in Ei. destruct init as [i|]; [|inversion Ei; subst; exact Hs0].
        destruct (negb _); [discriminate|]. destruct (Hi i eq_refl) as (Hs & _ & _).
        eapply set_latest_ok; [exact Ei | exact Hs0 | exact Hs]. }
      eapply (run_loop_pc (t :: txs) [] st ds p H Hst HV). constructor.
    - discriminate.
    - inversion H; subst q ds. destruct (init_state_pc init p Ei Hi) as [Hp|[Hp Hn]]; [left; exact Hp|].
      right. auto.
  Qed.

  Theorem run_panic_classes init txs ds p :
    run A init txs = (ds, Some (SPanic p)) ->
    init_ok2 init -> init_fits init -> Forall vtx txs -> pclass p.
  Proof.
    intros H Hi Hfit HV.
    destruct (run_panic_classes_any_init init txs ds p H Hi HV) as [Hp|(_ & _ & Hn)]; [exact Hp | contradiction].
  Qed.
End Sign.

(* ---- at a strictly-signed site the offending value is exactly zero ---- *)
Lemma strict_failure_is_zero_pos s q : 0 <= q -> pos_unwrap s q = Panic (PanicConstraint s) -> q = 0.
Proof.
  unfold pos_unwrap. intros Hq. destruct (Qcltb_spec 0 q) as [|Hn]; [discriminate|]. intros _.
  apply Qcnot_lt_le in Hn. apply Qcle_antisym; assumption.
Qed.

Theorem dec_pos_mul_underflow a b p :
  0 < a -> 0 < b -> pos_mul dec a b = Panic p ->
  p = PanicOverflow \/ (p = PanicConstraint Site.pos_mul /\ fit (a * b) = Some 0).
Proof.
  intros Ha Hb. unfold pos_mul. cbn [a_mul dec]. unfold fit_res.
  destruct (fit (a * b)) as [r|] eqn:E; cbn [bind]; [|intros H; inversion H; left; reflexivity].
  unfold pos_unwrap. destruct (Qcltb_spec 0 r) as [|Hn]; [discriminate|]. intros H; inversion H; subst. right.
  split; [reflexivity|]. f_equal. apply Qcnot_lt_le in Hn.
  apply Qcle_antisym; [exact Hn|]. apply (proj1 (fit_sign _ _ E)). apply Qclt_le_weak. apply Qcmul_pos; assumption.
Qed.

(* ---- the opening position is a value of the arithmetic ---- *)
Lemma init_fits_none A : init_fits A None.
Proof. intros i E; discriminate E. Qed.
Lemma init_fits_exact init : init_fits exact init.
Proof. intros i _. rewrite all_after_exact. f_equal. ring. Qed.
(* rust_decimal: an opening balance that is a decimal of at most 28 places
   with a 96-bit mantissa (fit returns it unchanged) passes *)
Lemma init_fits_dec init :
  (forall i, init = Some i -> fit (s_sh i) = Some (s_sh i)) -> init_fits dec init.
Proof.
  intros H i E. specialize (H i E). unfold all_after.
  destruct (Qceqb_spec (s_sh i) 0) as [E0|_]; [rewrite E0; reflexivity|].
  cbn [a_sub a_add dec].
  assert (E1 : (0 - 0 : Qc) = 0) by ring. rewrite E1.
  assert (E2 : fit 0 = Some 0) by (apply (fit_exact_int 0); vm_compute; discriminate).
  unfold fit_res at 1. rewrite E2. cbn [bind].
  assert (E3 : 0 + s_sh i = s_sh i) by ring. rewrite E3. unfold fit_res. rewrite H. reflexivity.
Qed.
